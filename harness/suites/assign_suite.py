"""Suite `assign` (C14): the assignment decision of equality.py against the Lean model and the
documented decision list — unit level (the real `_do_assignment_new_impl` through its
`line_matches` test parameter) and run level (real csvpaths over a 3-line file)."""
import itertools

import driver
from core import rng

QUALS = ["onmatch", "latch", "onchange", "increase", "decrease", "notnone", "asbool", "nocontrib"]


# ---- the documented decision list, in Python (cross-checked with Spec.Assign through the driver) ----
def py_asbool(y):
    if y is None:
        return False
    if isinstance(y, int):
        return y != 0
    t = y.strip().lower()
    if t == "false":
        return False
    if t == "true":
        return True
    return y != ""


def goes_up(cur, y):
    if y is None:
        return False
    if cur is None:
        return True
    return cur < y


def goes_down(cur, y):
    if y is None:
        return False
    if cur is None:
        return True
    return y < cur


def spec_assign(q, cur, y, rest, dm):
    pos, neg = dm, (not dm)
    if "onmatch" in q and not rest:
        base = (None, neg)
    elif ("latch" in q or "onchange" in q) and cur == y:
        base = (None, neg if "onchange" in q else pos)
    elif "latch" in q and cur is not None:
        base = (None, pos)
    elif "notnone" in q and y is None:
        base = (None, neg)
    elif "increase" in q and not goes_up(cur, y):
        base = (None, neg)
    elif "decrease" in q and not goes_down(cur, y):
        base = (None, neg)
    else:
        base = (("w", y), pos)
    vote = base[1]
    if "asbool" in q and vote == pos:
        vote = py_asbool(y)
    if "nocontrib" in q:
        vote = pos
    return base[0], vote


def in_quantifier(q, y):
    return not ("increase" in q or "decrease" in q) or y is None or bool(y)


_EQ = {}


def real_equality(dm):
    """an Equality `@x = 1` inside a real Matcher"""
    import real_run
    from csvpath import CsvPath
    from csvpath.matching.matcher import Matcher

    if dm not in _EQ:
        p = CsvPath()
        real_run.write_file("a.csv", [["a"], ["1"]])
        p.parse("$data/a.csv[*][@x = 1]")
        p.get_total_lines_and_headers()
        m = Matcher(csvpath=p, data="[@x = 1]", line=["1"], headers=["a"])
        m.AND = dm
        p.matcher = m
        eq = m.expressions[0][0].children[0]
        _EQ[dm] = (p, eq)
    return _EQ[dm]


def case_unit(case):
    """case: {quals, cur, y, lm, dm}"""
    q, cur, y, lm, dm = case["quals"], case["cur"], case["y"], case["lm"], case["dm"]
    p, eq = real_equality(dm)
    p.variables = {}
    p._freeze_path = False
    if cur is not None:
        p.variables["x"] = cur
    args = {k: (k in q) for k in QUALS}
    args.update({"noqualifiers": not q, "count": False, "new_value": y, "name": "x", "tracking": None,
                 "current_value": cur, "line_matches": lm})
    res = {"case": case, "disagree": [], "oracle": []}
    try:
        vote = eq._do_assignment_new_impl(name="x", tracking=None, args=args)
        after = p.variables.get("x")
        wrote = ("w", after) if ("x" in p.variables and (after != cur or type(after) is not type(cur) or cur is None and after is None and False)) else None
        # a write of an equal value cannot be told from no write by the store; ask the call log instead
        real = {"vote": bool(vote), "after": after}
    except TypeError:
        real = {"error": "TypeError"}
    m = driver.ask({"op": "assign", "quals": q, "cur": cur, "y": y, "lm": lm, "dm": dm})
    mm = m["model"]
    if "error" in mm or "error" in real:
        if mm.get("error") != real.get("error"):
            res["disagree"].append({"what": "assign unit: exception", "real": real, "model": mm})
        return res
    model_after = mm["write"]["v"] if mm["write"] is not None else cur
    if real["vote"] != mm["vote"] or real["after"] != model_after:
        res["disagree"].append({"what": "assign unit: vote or value", "real": real, "model": mm})
    # oracle (documented decision list) on the real observation
    inq = in_quantifier(q, y)
    res["in_quantifier"] = inq
    sw, sv = spec_assign(q, cur, y, lm == dm, dm)
    lean_spec = m["spec"]
    lean_after = lean_spec["write"]["v"] if lean_spec["write"] is not None else cur
    spec_after = sw[1] if sw is not None else cur
    if (lean_spec["vote"], lean_after) != (sv, spec_after):
        res["infra"] = f"Python oracle and Spec.Assign disagree on {case}: {lean_spec} vs {(sv, spec_after)}"
    if inq and (real["vote"] != sv or real["after"] != spec_after):
        res["oracle"].append({"what": "assignment does not follow the documented qualifier table",
                              "quals": q, "cur": cur, "y": y, "rest_matches": lm == dm, "AND": dm,
                              "real": real, "documented": {"vote": sv, "after": spec_after}})
    if not inq and (real["vote"] != sv or real["after"] != spec_after):
        res["outside_differs"] = True
    return res


# ---- run level -------------------------------------------------------------------------------
def case_run(case):
    """case: {quals, ys: [y1,y2,y3] (strings or None), rest: [bool]*3, dm}: the csvpath
    `[@x.<quals> = #v  #m == "y"]` over the file (v, m) with one record per y; observes x after
    each prefix of the file and which lines are returned"""
    import real_run

    q, ys, rest, dm = case["quals"], case["ys"], case["rest"], case["dm"]
    res = {"case": case, "disagree": [], "oracle": []}
    quals = "".join("." + x for x in q)
    mode = "" if dm else "~ logic-mode: OR ~ "
    cur = None
    for k in range(1, 4):
        recs = [["m", "v"]] + [[("y" if rest[i] else "n")] + ([ys[i]] if ys[i] is not None else []) for i in range(k)]
        path = real_run.write_file("as.csv", recs)
        text = f'{mode}${path}[1*][@x{quals} = #v #m == "y"]'
        out, p = real_run.run_single(text, "collect", policy=["collect", "print"])
        if "parse_error" in out or out.get("raised") or out.get("errors"):
            res["skipped"] = out.get("parse_error") or out.get("raised") or "errors"
            return res
        y = ys[k - 1]
        r = rest[k - 1]
        sw, sv = spec_assign(q, cur, y, r, dm)
        want_after = sw[1] if sw is not None else cur
        got_after = out["variables"].get("x")
        inq = in_quantifier(q, y)
        # line k is returned iff (AND) vote and rest / (OR) vote or rest
        returned = recs[k] in out["lines"] and out["lines"].count(recs[k]) >= 1 and (out["lines"][-1:] == [recs[k]] if True else False)
        last_returned = bool(out["lines"]) and out["script"][-1]["b"] if out["script"] else False
        want_returned = (sv and r) if dm else (sv or r)
        m = driver.ask({"op": "assign", "quals": q, "cur": cur, "y": y, "lm": (dm if r else (not dm)), "dm": dm})
        mm = m["model"]
        model_after = (mm["write"]["v"] if mm.get("write") is not None else cur) if "error" not in mm else "TypeError"
        if model_after != got_after:
            res["disagree"].append({"what": "assign run: value of x after the line", "line": k, "real": got_after, "model": model_after})
        if "error" not in mm:
            model_returned = (mm["vote"] and r) if dm else (mm["vote"] or r)
            if model_returned != last_returned:
                res["disagree"].append({"what": "assign run: whether the line is returned", "line": k,
                                        "real": last_returned, "model": model_returned})
        if inq:
            if got_after != want_after:
                res["oracle"].append({"what": "x does not hold the value the documented table assigns", "line": k, "quals": q,
                                      "ys": ys, "rest": rest, "AND": dm, "got": got_after, "want": want_after})
            if last_returned != want_returned:
                res["oracle"].append({"what": "the assignment's vote differs from the documented table", "line": k, "quals": q,
                                      "ys": ys, "rest": rest, "AND": dm, "line_returned": last_returned, "want": want_returned})
        cur = got_after
    return res


def all_unit_cases():
    vals = [None, 1, 2, 3]
    out = []
    for mask in range(256):
        q = [QUALS[i] for i in range(8) if mask >> i & 1]
        vs = list(vals)
        curs = [None, 0, 1, 2, 3]          # a current value of 0 is a value like any other (it is not "absent")
        if "increase" not in q and "decrease" not in q:
            vs = [None, 0, 1, 2, 3] + ["true", "false"]
            curs = vs
        for cur in curs:
            for y in vs:
                if (isinstance(cur, str) and isinstance(y, int)) or (isinstance(cur, int) and isinstance(y, str)):
                    mixed = True
                else:
                    mixed = False
                for lm in (True, False):
                    for dm in (True, False):
                        out.append({"quals": q, "cur": cur, "y": y, "lm": lm, "dm": dm, "mixed": mixed})
    return out


def outside_unit_cases():
    out = []
    for mask in range(256):
        q = [QUALS[i] for i in range(8) if mask >> i & 1]
        if "increase" in q or "decrease" in q:
            for cur in (None, 1, 0):
                for y in (0, ""):
                    if isinstance(y, str) and isinstance(cur, int):
                        continue
                    out.append({"quals": q, "cur": cur, "y": y, "lm": True, "dm": True})
    return out
