"""Suite `interp`: whole runs of generated csvpaths, real code vs the Lean interpreter model."""
import json

import driver
import gen_interp as GI
import gen_paths as G
from core import rng
from run_suite import canon_vars, has_cycle, has_recursion_error


def model_vars(mv):
    """model variables ([name, value] pairs, floats as {"f": i}, dicts as {"d": [[k, v]]}) → plain JSON"""
    def conv(x):
        if isinstance(x, dict):
            if "f" in x:
                return float(x["f"])
            if "d" in x:
                return {str(conv(k)): conv(v) for k, v in x["d"]}
        if isinstance(x, list):
            return [conv(y) for y in x]
        return x

    return {k: conv(v) for k, v in mv}


def real_vars(v):
    out = {}
    for k, x in (v or {}).items():
        if str(k).startswith("_intx_"):
            continue
        out[k] = x
    return canon_vars(out)


def gen_case(seed, i, profile=None):
    r = rng(seed, "interp", i)
    recs = GI.gen_file(r)
    prof = profile or r.choice(["plain", "control", "vars"])
    return {"recs": recs, "scan": G.scan_part(r, len(recs)), "match": GI.match_part(r, prof), "and": r.random() < 0.75,
            "profile": prof}


def run_both(case, method="collect", n=None):
    """returns (real_out, model_out or None, note)"""
    import ast_extract
    import real_run

    recs = case["recs"]
    path = real_run.write_file("in.csv", recs)
    mode = "" if case["and"] else "~ logic-mode: OR ~ "
    text = f"{mode}${path}[{case['scan']}][{case['match']}]"
    out, p = real_run.run_single(text, method, n, policy=["collect"])
    if "parse_error" in out:
        return out, None, "parse_error"
    if out.get("raised") or out.get("errors") or has_recursion_error(out):
        return out, None, "real run has errors (error handling is C05's domain)"
    if has_cycle(out.get("variables")):
        return out, None, "self-containing variable"
    try:
        prog, _ = ast_extract.prog_of(text)
    except ast_extract.Unmodelled as e:
        return out, None, f"unmodelled syntax: {e}"
    except Exception as e:  # noqa: BLE001  (the structural validation of the match part failed)
        return out, None, f"match part does not validate: {e.__class__.__name__}"
    req = {"op": "interp", "scan": case["scan"], "recs": recs, "prog": prog, "and": case["and"], "method": method}
    if n is not None:
        req["n"] = n
    m = driver.ask(req)
    if m.get("error") or m.get("unmodelled"):
        return out, None, "unmodelled: " + str(m.get("error") or m.get("unmodelled"))
    return out, m, None


def compare(out, m):
    dis = []
    if m["lines"] != out["lines"]:
        dis.append({"what": "interp: lines", "real": out["lines"], "model": m["lines"]})
    for k in ("stopped", "valid", "match_count", "advance"):
        if m["flags"][k] != out["flags"][k]:
            dis.append({"what": f"interp: {k}", "real": out["flags"][k], "model": m["flags"][k]})
    if m["scan_count"] != out["scan_count"]:
        dis.append({"what": "interp: scan_count", "real": out["scan_count"], "model": m["scan_count"]})
    rv, mv = real_vars(out["variables"]), canon_vars(model_vars(m["variables"]))
    if rv != mv:
        dis.append({"what": "interp: variables", "real": rv, "model": mv})
    rp = [e[1] for e in out["printouts"]]
    if rp != m["printouts"]:
        dis.append({"what": "interp: printouts", "real": rp, "model": m["printouts"]})
    return dis


def case_interp(case):
    res = {"case": case, "disagree": [], "oracle": [], "nontrivial": False}
    out, m, note = run_both(case)
    if m is None:
        res["skipped"] = note
        return res
    res["disagree"] = compare(out, m)
    nb = sum(1 for r_ in case["recs"] if r_)
    res["nontrivial"] = 0 < len(out["lines"] or []) < nb
    return res
