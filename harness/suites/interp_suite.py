"""Suite `interp`: whole runs of generated csvpaths, real code vs the Lean interpreter model."""
import json

import driver
import gen_interp as GI
import gen_paths as G
from core import rng
from run_suite import canon_vars, has_cycle, has_recursion_error


def model_vars(mv):
    """model variables ([name, value] pairs, floats as {"f": i}, dicts as {"d": [[k, v]]}) → plain JSON"""
    def conv(x):
        if isinstance(x, dict):
            if "f" in x:
                return float(x["f"])
            if "d" in x:
                return {str(conv(k)): conv(v) for k, v in x["d"]}
        if isinstance(x, list):
            return [conv(y) for y in x]
        return x

    return {k: conv(v) for k, v in mv}


def real_vars(v):
    out = {}
    for k, x in (v or {}).items():
        if str(k).startswith("_intx_"):
            continue
        out[k] = x
    return canon_vars(out)


def gen_case(seed, i, profile=None):
    r = rng(seed, "interp", i)
    recs = GI.gen_file(r)
    prof = profile or r.choice(["plain", "control", "vars"])
    case = {"recs": recs, "scan": G.scan_part(r, len(recs)), "match": GI.match_part(r, prof), "and": r.random() < 0.75,
            "profile": prof}
    if prof == "vars" and r.random() < 0.2:
        # the counters and variables are the same whichever lines are handed back (return-mode: no-matches)
        case["nomatch"] = True
    return case


def run_both(case, method="collect", n=None):
    """returns (real_out, model_out or None, note)"""
    import ast_extract
    import real_run

    recs = case["recs"]
    path = real_run.write_file("in.csv", recs)
    settings = ([] if case["and"] else ["logic-mode: OR"]) + ([f"validation-mode: {case['vmode']}"] if case.get("vmode") else []) + \
        (["return-mode: no-matches"] if case.get("nomatch") else [])
    mode = ("~ " + " ".join(settings) + " ~ ") if settings else ""
    text = f"{mode}${path}[{case['scan']}][{case['match']}]"
    out, p = real_run.run_single(text, method, n, policy=["collect"])
    if "parse_error" in out:
        return out, None, "parse_error"
    if out.get("raised") or out.get("errors") or has_recursion_error(out):
        return out, None, "real run has errors (error handling is C05's domain)"
    if has_cycle(out.get("variables")):
        return out, None, "self-containing variable"
    try:
        prog, _ = ast_extract.prog_of(text)
    except ast_extract.Unmodelled as e:
        return out, None, f"unmodelled syntax: {e}"
    except Exception as e:  # noqa: BLE001  (the structural validation of the match part failed)
        return out, None, f"match part does not validate: {e.__class__.__name__}"
    req = {"op": "interp", "scan": case["scan"], "recs": recs, "prog": prog, "and": case["and"], "method": method,
           "metadata": {"d": [[str(k), str(v)] for k, v in (p.metadata or {}).items() if isinstance(v, str)]},
           "static": {"d": [["identity", p.identity], ["delimiter", p.delimiter], ["quotechar", p.quotechar]]}}
    if case.get("nomatch"):
        req["cfg"] = {"cwnm": True}
    if n is not None:
        req["n"] = n
    m = driver.ask(req)
    if m.get("error") or m.get("unmodelled"):
        return out, None, "unmodelled: " + str(m.get("error") or m.get("unmodelled"))
    return out, m, None


def compare(out, m):
    dis = []
    if m["lines"] != out["lines"]:
        dis.append({"what": "interp: lines", "real": out["lines"], "model": m["lines"]})
    for k in ("stopped", "valid", "match_count", "advance"):
        if m["flags"][k] != out["flags"][k]:
            dis.append({"what": f"interp: {k}", "real": out["flags"][k], "model": m["flags"][k]})
    if m["scan_count"] != out["scan_count"]:
        dis.append({"what": "interp: scan_count", "real": out["scan_count"], "model": m["scan_count"]})
    rv, mv = real_vars(out["variables"]), canon_vars(model_vars(m["variables"]))
    if rv != mv:
        dis.append({"what": "interp: variables", "real": rv, "model": mv})
    rp = [e[1] for e in out["printouts"]]
    if rp != m["printouts"]:
        dis.append({"what": "interp: printouts", "real": rp, "model": m["printouts"]})
    return dis


def case_interp(case):
    res = {"case": case, "disagree": [], "oracle": [], "nontrivial": False}
    out, m, note = run_both(case)
    if m is None:
        res["skipped"] = note
        return res
    res["disagree"] = compare(out, m)
    nb = sum(1 for r_ in case["recs"] if r_)
    res["nontrivial"] = 0 < len(out["lines"] or []) < nb
    return res


def num_canon(x):
    """numbers by value (3 and 3.0 agree), containers recursively"""
    if isinstance(x, bool) or x is None or isinstance(x, str):
        return x
    if isinstance(x, (int, float)):
        return float(x)
    if isinstance(x, (list, tuple)):
        return [num_canon(y) for y in x]
    if isinstance(x, dict):
        return {str(k): num_canon(v) for k, v in sorted(x.items(), key=lambda kv: str(kv[0]))}
    return str(x)


def judge_against_spec(case, out, prog):
    """the real run against the reference semantics S; returns (violations, triggers, note)"""
    import spec_eval

    try:
        sp = spec_eval.judge(prog, case["recs"], case["scan"], case["and"], nomatch=bool(case.get("nomatch")))
    except spec_eval.OutOfClass as e:
        return [], set(), f"outside the documented core: {e}"
    except Exception as e:  # noqa: BLE001
        return [], set(), f"spec evaluator error: {e.__class__.__name__}: {e}"
    vio = []
    if out["lines"] != sp.lines:
        vio.append({"what": "returned lines differ from the lines on which the components hold", "got": out["lines"], "want": sp.lines})
    if out["flags"]["match_count"] != sp.match_count:
        vio.append({"what": "match_count differs from the number of lines that matched", "got": out["flags"]["match_count"], "want": sp.match_count})
    if out["scan_count"] != sp.scan_count:
        vio.append({"what": "scan_count differs from the number of lines offered", "got": out["scan_count"], "want": sp.scan_count})
    if out["flags"]["valid"] != sp.valid:
        vio.append({"what": "validity verdict", "got": out["flags"]["valid"], "want": sp.valid})
    # a stack that exists but is empty is not told apart from one that was never created (peek/pop/stack on an unknown name create
    # it as a by-product, also when an enclosing and()/or() would not need the value)
    # … and reading `@v.key` of an unknown variable leaves `v: {key: None}` behind: an entry that holds None is not told apart
    # from a missing one
    def tidy(d):
        out_ = {}
        for k, v in d.items():
            if isinstance(v, dict):
                v = {kk: vv for kk, vv in v.items() if vv is not None}
            if v != [] and v != {}:
                out_[k] = v
        return out_

    rv = tidy(num_canon(real_vars(out["variables"])))
    sv = tidy(num_canon(sp.vars))
    if rv != sv:
        vio.append({"what": "variables differ from the values the csvpath assigns", "got": rv, "want": sv})
    rp = [e[1] for e in out["printouts"]]
    if rp != sp.prints:
        vio.append({"what": "printouts", "got": rp, "want": sp.prints})
    return vio, sp.trigger, None


def case_spec(case):
    """correspondence with M and judgement against S in one pass"""
    import ast_extract
    import real_run

    res = case_interp(case)
    res["spec"] = []
    res["triggers"] = []
    recs = case["recs"]
    path = real_run.write_file("in.csv", recs)
    settings = ([] if case["and"] else ["logic-mode: OR"]) + ([f"validation-mode: {case['vmode']}"] if case.get("vmode") else []) + \
        (["return-mode: no-matches"] if case.get("nomatch") else [])
    mode = ("~ " + " ".join(settings) + " ~ ") if settings else ""
    text = f"{mode}${path}[{case['scan']}][{case['match']}]"
    out, p = real_run.run_single(text, "collect", policy=["collect"])
    if "parse_error" in out or out.get("raised") or out.get("errors") or has_recursion_error(out) or has_cycle(out.get("variables")):
        res["spec_note"] = "real run has errors"
        return res
    try:
        prog, _ = ast_extract.prog_of(text)
    except Exception as e:  # noqa: BLE001
        res["spec_note"] = f"no tree: {e.__class__.__name__}"
        return res
    vio, trig, note = judge_against_spec(case, out, prog)
    res["spec"] = vio
    res["triggers"] = sorted(trig)
    res["spec_note"] = note
    return res


def add_component(match, extra):
    """append a component, but keep a trailing `last() -> …` component last (quantifier of C01)"""
    import re

    m = re.search(r"(\s)(last\(\) -> .*)$", match, re.S)
    if m and not match.startswith("last() ->"):
        return match[: m.start()] + " " + extra + m.group(1) + m.group(2)
    if match.startswith("last() ->"):
        return extra + " " + match
    return match + " " + extra


# ---- comparisons of present cells never raise (docs/functions/above.md: number, else string) --------------------------------
CMP_CELLS = ["0", "1", "2", "3", "10", "12", "-1", "1.0", "01", "3.0", "1,200", "$4", "2;5", "€9", "1,0", "fish", "Fish", "x", "12 ", " 7"]


def gen_cmp_case(seed, i):
    r = rng(seed, "cmp-family", i)
    recs = [["a", "b", "n", "c"]]
    for _ in range(r.randint(2, 7)):
        recs.append([r.choice(["x", "y", "zed"]), r.choice(CMP_CELLS), r.choice(CMP_CELLS), r.choice(["p", "q"])])
    if r.random() < 0.5 and len(recs) > 2:
        # after lines on which the operands are present: lines on which one is missing — an empty cell, or a short row (None
        # against anything is False, and is no error)
        for j in range(2, len(recs)):
            k = r.random()
            if k < 0.25:
                recs[j][r.choice([1, 2])] = ""
            elif k < 0.4:
                recs[j] = recs[j][:r.choice([1, 2])]
    f = r.choice(["above", "below", "gt", "lt", "gte", "lte", "after", "before"])
    left = r.choice(["#n", "#b", "#2"])
    right = r.choice(["#b", "#n", str(r.choice([0, 1, 2, 3, 10, 100, 2000])), '"' + r.choice(["fish", "3", "x"]) + '"'])
    comp = f"{f}({left}, {right})"
    if r.random() < 0.3:
        comp = f"not({comp})"
    if r.random() < 0.3:
        comp = comp + ' push("seen", line_number())'
    return {"recs": recs, "scan": "1*", "match": comp, "and": r.random() < 0.8, "profile": "cmp-family"}


def case_cmp(case):
    """the comparison family on cells that are present: no error is raised, and the lines are those the documented comparison
    (numbers as numbers, anything else as text) selects"""
    import real_run

    res = case_spec(case)
    if res.get("spec_note") == "real run has errors":
        path = real_run.write_file("in.csv", case["recs"])
        mode = "" if case["and"] else "~ logic-mode: OR ~ "
        out, _ = real_run.run_single(f"{mode}${path}[{case['scan']}][{case['match']}]", "collect", policy=["collect"])
        res["spec"] = [{"what": "a comparison of two cells (present, empty or missing) raised an error (the documented fallback is a comparison as text; "
                                "a missing value compares False)",
                        "errors": out.get("errors"), "raised": out.get("raised")}]
    return res
