"""Suite `pyops`: the `Py` prelude of the source translator (lean/Model/Py.lean) against CPython, operator by operator,
on generated values of the prelude's domain (None, bool, int, str, lists of ints and Nones, lists of strs)."""
import driver
from core import rng

OPS1 = ["truthy", "not", "bool", "strip", "len", "max", "min", "asbool", "isinstance_bool", "isinstance_int", "isinstance_str"]
OPS2 = ["find", "and", "or", "eq", "ne", "lt", "le", "gt", "ge", "is", "isnot", "in", "notin", "add", "sub", "append"]


def gen_value(r):
    k = r.random()
    if k < 0.12:
        return None
    if k < 0.27:
        return r.choice([True, False])
    if k < 0.52:
        return r.choice([0, 1, -1, 2, 3, 7, 10, 255, -40, 10**12])
    if k < 0.75:
        return r.choice(["", "a", "b", "ab", "abc", "true", " False ", "NaN", "nan", "stop", "1", "x y", " no-keep\t", "keep", "\u2003run\u00a0"])
    if k < 0.9:
        return {"ints": [r.choice([0, 1, 2, 3, 5, None]) for _ in range(r.randint(0, 4))]}
    return {"strs": [r.choice(["raise", "stop", "a", ""]) for _ in range(r.randint(0, 3))]}


def to_py(v):
    if isinstance(v, dict):
        return list(v.get("ints", v.get("strs")))
    return v


def from_py(x, like=None):
    if isinstance(x, list):
        if all(isinstance(e, str) for e in x) and (x or (isinstance(like, dict) and "strs" in like)):
            return {"strs": x}
        return {"ints": x}
    return x


def py_eval(f, args):
    from csvpath.matching.util.expression_utility import ExpressionUtility

    a = [to_py(v) for v in args]
    try:
        if f == "truthy":
            return bool(a[0])
        if f == "not":
            return not a[0]
        if f == "bool":
            return bool(a[0])
        if f == "strip":
            return a[0].strip()
        if f == "find":
            return a[0].find(a[1])
        if f == "and":
            return from_py(a[0] and a[1], args[1])
        if f == "or":
            return from_py(a[0] or a[1], args[1])
        if f == "eq":
            return a[0] == a[1]
        if f == "ne":
            return a[0] != a[1]
        if f == "lt":
            return a[0] < a[1]
        if f == "le":
            return a[0] <= a[1]
        if f == "gt":
            return a[0] > a[1]
        if f == "ge":
            return a[0] >= a[1]
        if f == "in":
            return a[0] in a[1]
        if f == "notin":
            return a[0] not in a[1]
        if f == "len":
            return len(a[0])
        if f == "max":
            return max(a[0])
        if f == "min":
            return min(a[0])
        if f == "add":
            return from_py(a[0] + a[1], args[0])
        if f == "sub":
            return a[0] - a[1]
        if f == "append":
            xs = list(a[0])
            xs.append(a[1])
            return from_py(xs, args[0])
        if f == "asbool":
            return ExpressionUtility.asbool(a[0])
        if f == "isinstance_bool":
            return isinstance(a[0], bool)
        if f == "isinstance_int":
            return isinstance(a[0], int)
        if f == "isinstance_str":
            return isinstance(a[0], str)
    except Exception as e:  # noqa: BLE001
        return {"exc": e.__class__.__name__}
    raise ValueError(f)


def outside(f, args):
    """value combinations the prelude does not claim: identity of non-constants, lists as operands of and/or results that mix
    kinds, bool/int results of arithmetic on bools (Python keeps the int), lists inside asbool"""
    kinds = ["list" if isinstance(v, dict) else type(v).__name__ for v in args]
    if f == "append":
        # translated for a local list of strings only
        return not (isinstance(args[0], dict) and "strs" in args[0] and kinds[1] == "str")
    if f in ("is", "isnot"):
        return True            # `is` is translated for constants only (None, True, False); judged on those below
    if f in ("asbool",) and kinds[0] == "list":
        return True
    if f in ("lt", "le", "gt", "ge", "add", "sub", "in", "notin") and "list" in kinds and f not in ("in", "notin", "add"):
        return True
    if f in ("in", "notin") and kinds[1] == "str" and kinds[0] != "str":
        return False
    if f in ("strip", "find") and kinds[0] != "str":
        return True            # method calls are translated for strings (anything else has no such method)
    if f in ("max", "min", "len") and kinds[0] not in ("list", "str"):
        return False
    if f in ("max", "min") and (kinds[0] == "str" or (isinstance(args[0], dict) and "strs" in args[0])):
        return True            # max/min are translated for lists of line numbers only
    if f == "add" and kinds == ["list", "list"] and set(args[0]) != set(args[1]):
        return True
    return False


def gen_case(seed, i):
    r = rng(seed, "pyops", i)
    if r.random() < 0.04:
        return {"f": "append", "args": [{"strs": [r.choice(["raise", "stop", "a", ""]) for _ in range(r.randint(0, 3))]},
                                        r.choice(["", "a", "$[*][yes()]", "x y"])]}
    if r.random() < 0.35:
        f = r.choice(OPS1)
        return {"f": f, "args": [gen_value(r)]}
    f = r.choice(OPS2)
    return {"f": f, "args": [gen_value(r), gen_value(r)]}


def case(c):
    import real_run  # noqa: F401  (private work dir, csvpath importable)

    res = {"case": c, "disagree": [], "oracle": []}
    if c["f"] in ("is", "isnot"):
        # identity against the constants None / True / False
        consts = [None, True, False]
        for k in consts:
            want = (to_py(c["args"][0]) is k) if c["f"] == "is" else (to_py(c["args"][0]) is not k)
            got = driver.ask({"op": "pyop", "f": c["f"], "args": [c["args"][0], k]})["r"]
            if got != want:
                res["disagree"].append({"what": f"pyops: {c['f']} against the constant {k!r}", "args": c["args"][0], "real": want, "model": got})
        return res
    if outside(c["f"], c["args"]):
        res["skipped"] = True
        return res
    want = py_eval(c["f"], c["args"])
    got = driver.ask({"op": "pyop", "f": c["f"], "args": c["args"]})["r"]
    empty = lambda v: isinstance(v, dict) and list(v.values()) == [[]]  # noqa: E731  ([] has no element kind)
    if empty(want) and empty(got):
        return res
    if isinstance(want, bool) != isinstance(got, bool) or want != got:
        res["disagree"].append({"what": f"pyops: {c['f']}", "args": c["args"], "real": want, "model": got})
    return res
