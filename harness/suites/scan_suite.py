"""Suite `scan` (C02): scan parts × files.  Real run loop + scanner vs the Lean model, and the
real run vs the denotation (oracle)."""
import itertools
import json

import driver
from core import rng


# ---- reference semantics in Python (cross-checked against Spec.Scan in Lean via op `den`) ----
def k_text(k):
    t = k["k"]
    if t == "all":
        return "*"
    if t == "fromN":
        return f"{k['n']}*"
    if t == "loneRange":
        return f"{k['a']}-{k['b']}"
    parts = []
    for it in k["items"]:
        parts.append(str(it[0]) if len(it) == 1 else f"{it[0]}-{it[1]}")
    return "+".join(parts)


def k_den(k, n):
    t = k["k"]
    if t == "all":
        return True
    if t == "fromN":
        return n >= k["n"]
    if t == "loneRange":
        return min(k["a"], k["b"]) <= n <= max(k["a"], k["b"])
    return any((n == it[0]) if len(it) == 1 else (it[0] <= n <= it[1]) for it in k["items"])


def layout(text, r):
    """random inner whitespace (t_ignore)"""
    out = []
    for ch in text:
        if r.random() < 0.15:
            out.append(r.choice([" ", "  ", "\t", "\n"]))
        out.append(ch)
    # never split digits of one number
    res = "".join(out)
    import re

    res = re.sub(r"(\d)[ \t\n]+(?=\d)", r"\1", res)
    return res


def all_k_shapes(maxb, max_items=3):
    ks = [{"k": "all"}]
    for n in range(maxb + 1):
        ks.append({"k": "fromN", "n": n})
    for a in range(maxb + 1):
        for b in range(maxb + 1):
            ks.append({"k": "loneRange", "a": a, "b": b})
    # ascending non-overlapping lists of numbers and forward ranges
    def rec(lo, left):
        if left == 0:
            return
        for a in range(lo, maxb + 1):
            for it in [[a]] + [[a, b] for b in range(a + 1, maxb + 1)]:
                yield [it]
                for tail in rec(it[-1] + 1, left - 1):
                    yield [it] + tail

    for items in rec(0, max_items):
        if len(items) == 1 and len(items[0]) == 2:
            continue  # same text as a lone range
        ks.append({"k": "list", "items": items})
    return ks


def blank_patterns(n):
    return list(itertools.product([False, True], repeat=n))


def make_records(n, blanks, ditto=None):
    """`ditto`: positions whose last cell is a lone double quote (plain data when the quote character is the apostrophe)"""
    return [[] if blanks[i] else [f"r{i}", str(i * 7 % 10), '"' if ditto and ditto[i] else "x"] for i in range(n)]


MATCH_PARTS = ['yes()', 'push("n", line_number())']


def case_scan(case):
    """case: {scan: text, k: K or None, n, blanks, mp}"""
    import real_run

    # "positions of CSV records": under the reader's configured dialect; `quote` = "'" makes the double quote plain data
    quote = case.get("quote", '"')
    recs = make_records(case["n"], case["blanks"], case.get("ditto"))
    path = real_run.write_file("scan.csv", recs, quotechar=quote)
    scan = case["scan"]
    mp = MATCH_PARTS[case.get("mp", 0)]
    out, p = real_run.run_single(f"${path}[{scan}][{mp}]", quotechar=quote)
    res = {"case": case, "disagree": [], "oracle": [], "nontrivial": False}
    # ---- model: scanner state, includes, is_last (unit-level) ----
    m = driver.ask({"op": "scan", "scan": scan, "n": case["n"]})
    if "raised" in out and "parse_error" not in out and "error" not in m and m.get("is_last_raises"):
        # the run itself raised inside is_last (None in `these`): outside class K, not modelled
        res["unmodelled"] = "is_last raises TypeError during the run"
        if case.get("k") is not None:
            res["oracle"].append({"what": "run raised for a scan part of class K", "real": out["raised"]})
        return res
    if "parse_error" in out or "raised" in out:
        real_err = out.get("parse_error") or out.get("raised")
        # parse-time exception classes are canonicalised to "rejected": PLY runs semantic actions
        # for the part it has reduced before it reports a syntax error, so which of ScanException /
        # UnexpectedProductionException / TypeError comes first depends on LALR default reductions
        if "error" not in m:
            res["disagree"].append({"what": "real rejects, model accepts", "real": real_err, "model": m})
        res["rejected"] = real_err
        if case.get("k") is not None:
            res["oracle"].append({"what": "scan part of class K rejected", "real": real_err})
        return res
    if "error" in m:
        res["disagree"].append({"what": "model rejects, real accepts", "model": m})
        return res
    sc = p.scanner
    real_state = {"these": list(sc.these), "all": bool(sc.all_lines), "from": sc.from_line, "to": sc.to_line}
    if real_state != m["state"]:
        res["disagree"].append({"what": "scanner state", "real": real_state, "model": m["state"]})
    idxs = range(case["n"] + 3)
    real_inc = [i for i in idxs if sc.includes(i)]
    real_last, real_last_raises = [], []
    for i in idxs:
        try:
            if sc.is_last(i):
                real_last.append(i)
        except TypeError:
            real_last_raises.append(i)
    if real_inc != m["includes"]:
        res["disagree"].append({"what": "includes", "real": real_inc, "model": m["includes"]})
    if real_last_raises != m["is_last_raises"]:
        res["disagree"].append({"what": "is_last raising TypeError", "real": real_last_raises, "model": m["is_last_raises"]})
    if [i for i in real_last] != [i for i in m["is_last"] if i not in m["is_last_raises"]]:
        res["disagree"].append({"what": "is_last", "real": real_last, "model": m["is_last"]})
    if m["is_last_raises"]:
        res["unmodelled"] = "is_last raises TypeError (scan part outside class K leaves None in `these`)"
        if case.get("k") is not None:
            res["oracle"].append({"what": "is_last raises for a scan part of class K", "lines": real_last_raises})
        return res
    # ---- model: run loop under the recorded matcher ----
    mr = driver.ask({"op": "run", "scan": scan, "recs": recs, "method": "collect", "script": out["script"]})
    for key, rv in (("lines", out["lines"]), ("flags", out["flags"]), ("scan_count", out["scan_count"]),
                    ("calls", out["calls"])):
        if mr.get(key) != rv:
            res["disagree"].append({"what": f"run.{key}", "real": rv, "model": mr.get(key)})
    if mr.get("script_left") or mr.get("underflow"):
        res["disagree"].append({"what": "matcher called a different number of times", "model_left": mr.get("script_left"),
                                "underflow": mr.get("underflow")})
    # ---- oracle: the property itself, on the real observations ----
    k = case.get("k")
    if k is not None:
        offered = [i for i in range(case["n"]) if k_den(k, i) and recs[i]]
        want_lines = [recs[i] for i in offered]
        if out["lines"] != want_lines:
            res["oracle"].append({"what": "returned lines differ from the denoted non-blank records",
                                  "want": offered, "got_lines": out["lines"]})
        if out["scan_count"] != len(offered):
            res["oracle"].append({"what": "scan_count differs from the number of denoted non-blank records",
                                  "want": len(offered), "got": out["scan_count"]})
        called = [c["idx"] for c in out["calls"] if not c["blank_last"]]
        if called != offered:
            res["oracle"].append({"what": "lines offered to the match part differ from the denotation",
                                  "want": offered, "got": called})
        if case.get("mp", 0) == 1:
            got = out["variables"].get("n", [])
            if list(got) != offered:
                res["oracle"].append({"what": "line_number() seen by the match part", "want": offered, "got": list(got)})
        res["nontrivial"] = 0 < len(offered) < sum(1 for r in recs if r)
        res["offered"] = offered
    return res


def den_check(ks, n):
    """cross-check the Python denotation with Spec.Scan.K.den evaluated by the Lean driver"""
    bad = []
    for k in ks:
        r = driver.ask({"op": "den", "k": k, "n": n})
        mine = [i for i in range(n) if k_den(k, i)]
        if r.get("den") != mine or r.get("text") != k_text(k):
            bad.append({"k": k, "lean": r, "python": mine, "text": k_text(k)})
    return bad
