"""Suite `reader` (C06): records → csv.writer in a dialect → the real CsvPath → the records."""
import driver
from core import rng

DELIMS = [",", ";", "|", "\t"]
QUOTES = ['"', "'"]
ALPHABET = list("abcXYZ019 .-_") + ['"', "'", ",", ";", "|", "\t", "\n", " ", "é", "ß", "日", "本", "€", " ", " ", "~", "[", "]", "$", "#", "@", "\\"]
NAMES = ["id", "name", "amount", "the date", "Col-5", "x_y"]


def gen_cell(r):
    k = r.random()
    if k < 0.15:
        return ""
    if k < 0.5:
        return r.choice(["1", "23", "abc", "x y", " padded ", "true", "-7"])
    return "".join(r.choice(ALPHABET) for _ in range(r.randint(1, 8)))


def gen_case(seed, i):
    r = rng(seed, "reader", i)
    width = r.randint(1, 6)
    n = r.randint(0, 12)
    recs = []
    header = r.sample(NAMES, min(width, len(NAMES)))
    if len(header) > 1 and r.random() < 0.25:
        # a header record that repeats a name: #name then addresses the first column carrying it
        a, b = r.sample(range(len(header)), 2)
        header[max(a, b)] = header[min(a, b)]
    use_named_header = r.random() < 0.6
    for j in range(n):
        if r.random() < 0.15:
            recs.append([])
            continue
        w = width if r.random() < 0.75 else r.randint(1, 6)
        row = [gen_cell(r) for _ in range(w)]
        recs.append(row)
    if use_named_header and recs:
        # make the first non-blank record a header row of simple names (addressable from a csvpath)
        for j, rec in enumerate(recs):
            if rec:
                recs[j] = header[:]
                break
    case = {"recs": recs, "delim": r.choice(DELIMS), "quote": r.choice(QUOTES), "named": use_named_header, "header": header}
    if r.random() < 0.4:
        case["reset"] = r.randint(0, 50)
    return case


def case_reader(case):
    import real_run
    import realenv

    recs = case["recs"]
    # csv.writer cannot round-trip a record that is a single empty cell in every dialect; keep it as data
    path = "data/rd.csv"
    realenv.write_csv(path, recs, delimiter=case["delim"], quotechar=case["quote"])
    res = {"case": case, "disagree": [], "oracle": [], "nontrivial": False}
    # what the reference reader makes of the file (csv is a parameter of the model)
    import csv

    with open(path, "r", encoding="utf-8", newline="") as f:
        ref = [row for row in csv.reader(f, delimiter=case["delim"], quotechar=case["quote"])]
    if ref != recs:
        res["unmodelled"] = "csv.writer/csv.reader do not round-trip this record list in this dialect"
        return res
    # the csv model: the text csv.writer wrote, and what the repo's reader (csv.reader over a text-mode file) yields
    cm = driver.ask({"op": "csv", "delim": case["delim"], "quote": case["quote"], "limit": csv.field_size_limit(), "recs": recs})
    with open(path, "r", encoding="utf-8", newline="") as f:
        written = f.read()
    if cm["text"] != written:
        res["disagree"].append({"what": "csv model: the writer's text", "real": written, "model": cm["text"]})
    from csvpath.util.file_readers import DataFileReader

    try:
        real_recs = [list(r_) for r_ in DataFileReader(path, delimiter=case["delim"], quotechar=case["quote"]).next()]
    except csv.Error:
        real_recs = None
    if cm["read"] != real_recs:
        res["disagree"].append({"what": "csv model: the reader's records", "real": real_recs, "model": cm["read"]})
    if real_recs != recs:
        res["oracle"].append({"what": "the records the reader yields differ from the records written", "got": real_recs, "want": recs})
    out, p = real_run.run_single(f"${path}[*][yes()]", "collect", delimiter=case["delim"], quotechar=case["quote"], policy=["collect"])
    if "parse_error" in out or out.get("raised"):
        res["oracle"].append({"what": "reading the file failed", "error": out.get("parse_error") or out.get("raised")})
        return res
    want = [r_ for r_ in recs if r_]
    if out["lines"] != want:
        res["oracle"].append({"what": "returned lines differ from the CSV records", "got": out["lines"], "want": want})
    if want and case.get("reset") is not None:
        # a csvpath that takes new headers from a line (reset_headers()) still delivers that line as it is in the file, and its
        # headers afterwards are the cleaned cells of the line it last took them from
        import re as _re

        k = case["reset"] % len(want)
        form = [f"${path}[*][reset_headers()]", f"${path}[*][eq.nocontrib(line_number(), {k}) -> reset_headers()]",
                f"${path}[*][yes() reset_headers() push(\"c\", count_headers())]"][case["reset"] % 3]
        o3, p3 = real_run.run_single(form, "collect", delimiter=case["delim"], quotechar=case["quote"], policy=["collect"])
        if "parse_error" in o3 or o3.get("raised"):
            res["oracle"].append({"what": "a run with reset_headers() failed", "text": form, "error": o3.get("parse_error") or o3.get("raised")})
        elif not o3["errors"]:
            if "->" not in form and o3["lines"] != want:
                res["oracle"].append({"what": "returned lines differ from the CSV records when the csvpath resets its headers", "text": form,
                                      "got": o3["lines"], "want": want})
            if "->" in form and any(ln not in want for ln in o3["lines"]):
                res["oracle"].append({"what": "a returned line is not a record of the file when the csvpath resets its headers", "text": form,
                                      "got": o3["lines"], "want": want})
    first = next((r_ for r_ in recs if r_), None)
    m = driver.ask({"op": "headers", "recs": recs, "names": case["header"], "width": 6})
    # headers: cleaned cells of the first non-blank record
    import re

    want_h = [re.sub(r"[;,|\t`]", "", c.strip()) for c in first] if first else []
    if list(out["headers"] or []) != want_h:
        res["oracle"].append({"what": "headers are not the cleaned cells of the first non-blank record", "got": out["headers"], "want": want_h})
    # the same headers when the CsvPath is made by a CsvPaths: first with an empty header cache, then (a new instance) with the
    # cache the first one wrote
    if first:
        import shutil
        from csvpath import CsvPaths

        shutil.rmtree("cache", ignore_errors=True)
        for temp in ("cold", "warm"):
            try:
                cps = CsvPaths(delimiter=case["delim"], quotechar=case["quote"])
                p2 = cps.csvpath()
                p2.parse(f"${path}[*][yes()]")
                got_h = list(p2.headers or [])
            except Exception as e:  # noqa: BLE001
                got_h = f"raised {e.__class__.__name__}"
            if got_h != want_h:
                res["oracle"].append({"what": f"headers of a CsvPaths-created CsvPath ({temp} header cache) are not the cleaned cells of the first non-blank record",
                                      "got": got_h, "want": want_h})
                break
    if m["headers"] != list(out["headers"] or []):
        res["disagree"].append({"what": "reader: headers", "real": out["headers"], "model": m["headers"]})
    if case["named"] and first:
        # #name and #index address the same cell; a header missing from a short row reads as absent
        comps = []
        for k, nm in enumerate(first):
            comps.append(f'push("n{k}", #"{nm}") push("i{k}", #{k})')
        # cells beyond the header record (rows longer than the header) are addressable by index
        maxw = max((len(r_) for r_ in recs if r_), default=0)
        for k in range(len(first), maxw):
            comps.append(f'push("i{k}", #{k})')
        text = f"${path}[*][{' '.join(comps)}]"
        o2, _ = real_run.run_single(text, "collect", delimiter=case["delim"], quotechar=case["quote"], policy=["collect"])
        if "parse_error" in o2 or o2.get("raised"):
            res["oracle"].append({"what": "addressing headers by name/index failed", "error": o2.get("parse_error") or o2.get("raised")})
            return res
        if o2["errors"]:
            res["oracle"].append({"what": "a header missing from a short row raised instead of reading as absent", "errors": o2["errors"][:3]})
        data = [r_ for r_ in recs if r_]
        for k0, nm in enumerate(first):
            # a repeated name addresses the first column that carries it
            k = first.index(nm)
            byn = o2["variables"].get(f"n{k0}")
            byi = o2["variables"].get(f"i{k}")
            want_col = [(row[k].strip() if k < len(row) else None) for row in data]
            if byn != byi:
                res["oracle"].append({"what": "#name and #index read different cells", "header": nm, "by_name": byn, "by_index": byi})
            elif byi != want_col:
                res["oracle"].append({"what": "a header does not read the cell of its column (absent for short rows)", "header": nm,
                                      "got": byi, "want": want_col})
            mi = m["index_of"][case["header"].index(nm)] if nm in case["header"] else None
            if mi is not None and mi < len(m["by_index"]):
                mcol = [v for v, row in zip(m["by_index"][mi], recs) if row]
                if mcol != byi:
                    res["disagree"].append({"what": "reader: header values", "header": nm, "real": byi, "model": mcol})
        for k in range(len(first), maxw):
            byi = o2["variables"].get(f"i{k}")
            want_col = [(row[k].strip() if k < len(row) else None) for row in data]
            if byi != want_col:
                res["oracle"].append({"what": "an index beyond the header record does not read the cell of its column", "index": k,
                                      "got": byi, "want": want_col})
        res["nontrivial"] = len(data) >= 2 and any(len(row) < len(first) for row in data)
    else:
        res["nontrivial"] = len(want) >= 2
    return res


# ---- the csv model on text that csv.writer would not write (correspondence only: stray quotes, carriage returns, open quoted
# fields, a last line without a line end, a small field size limit) ----
RAW_PLAIN = list("ab1 .") + ["é", "日", "\u2028", "\x0b", "\x1c", "\x85"]


def gen_raw(seed, i):
    r = rng(seed, "reader-raw", i)
    delim = r.choice(DELIMS)
    quote = r.choice(QUOTES)
    other_quote = "'" if quote == '"' else '"'
    toks = []
    for _ in range(r.randint(0, 30)):
        k = r.random()
        if k < 0.35:
            toks.append(r.choice(RAW_PLAIN))
        elif k < 0.5:
            toks.append(delim)
        elif k < 0.68:
            toks.append(quote)
        elif k < 0.74:
            toks.append(quote + quote)
        elif k < 0.86:
            toks.append("\n")
        elif k < 0.91:
            toks.append("\r")
        elif k < 0.95:
            toks.append("\r\n")
        else:
            toks.append(r.choice([other_quote, r.choice([d_ for d_ in DELIMS if d_ != delim])]))
    text = "".join(toks)
    if r.random() < 0.6 and not text.endswith("\n"):
        text += "\n"
    return {"text": text, "delim": delim, "quote": quote, "limit": r.choice([None, None, None, 1, 2, 4])}


def case_raw(case):
    import csv
    import real_run  # noqa: F401  (enters the private working directory)
    from csvpath.util.file_readers import DataFileReader

    path = "data/raw.csv"
    with open(path, "w", encoding="utf-8", newline="") as f:
        f.write(case["text"])
    res = {"case": case, "disagree": [], "oracle": [], "nontrivial": False}
    old = csv.field_size_limit()
    limit = case["limit"] if case["limit"] is not None else old
    csv.field_size_limit(limit)
    try:
        try:
            real = [list(r_) for r_ in DataFileReader(path, delimiter=case["delim"], quotechar=case["quote"]).next()]
        except csv.Error:
            real = None
    finally:
        csv.field_size_limit(old)
    m = driver.ask({"op": "csvread", "delim": case["delim"], "quote": case["quote"], "limit": limit, "text": case["text"]})
    if m["read"] != real:
        res["disagree"].append({"what": "csv model: the reader's records on arbitrary text", "real": real, "model": m["read"]})
    res["error"] = real is None
    res["nontrivial"] = real is not None and len(real) >= 2 and case["quote"] in case["text"]
    return res
