"""Suites `archive` (C09) and `abort` (C18): what a named-paths run leaves on disk."""
import csv
import hashlib
import io
import json
import os

import gen_paths as G
from core import rng
from run_suite import canon_vars, has_cycle, has_recursion_error

SPECIAL_CELLS = ['he said "hi"', "a,b", "line\nbreak", "semi;colon", "'single'", " lead", "trail ", "ünï", ""]


def sha(b):
    return hashlib.sha256(b).hexdigest()


def gen_file_special(r):
    recs = G.gen_file(r, min_recs=2, max_recs=8)
    for row in recs[1:]:
        for j in range(len(row)):
            if r.random() < 0.12 and j != 2:
                row[j] = r.choice(SPECIAL_CELLS)
    if r.random() < 0.3 and recs:
        # a record whose cells are all empty is a record (`,,,`), not a blank line
        recs.insert(r.randint(1, len(recs)), [""] * len(recs[0]))
    return recs


def gen_case_archive(seed, i):
    r = rng(seed, "archive", i)
    recs = gen_file_special(r)
    n = r.randint(1, 3)
    members = []
    ids = set()
    for _ in range(n):
        prof = r.choice(["plain", "vars", "control", "errors"])
        mp = G.match_part(r, prof, max_components=4)
        if r.random() < 0.25:
            # printing to a named stream (print's second argument), with or without default printouts
            mp = r.choice([mp + ' print("to audit $.csvpath.line_number", "audit")', 'print("only audit", "audit")',
                           'print("a", "audit") print("b") print("c", "log")'])
        if r.random() < 0.12:
            # a failure that leaves CsvPath.collect()/next() itself (not a match component): the collect() function names a
            # column that a short line does not have; CsvPaths handles it under its own (non-raising) policy
            mp = r.choice(["collect(3)", 'collect("a", 3) yes()', "yes() collect(4)"])
        ident = r.choice([None, "m" + str(r.randint(1, 50))])
        if ident in ids:
            ident = None
        if ident:
            ids.add(ident)
        members.append({"match": mp, "ident": ident, "scan": G.scan_part(r, len(recs)),
                        "unmatched": r.random() < 0.3})
    method = r.choice(["collect_paths", "fast_forward_paths", "next_paths", "collect_by_line", "fast_forward_by_line", "next_by_line"])
    if r.random() < 0.15:
        # the last member rewrites the line in place (replace/append); in a breadth-first run it gets the very list object the
        # members before it collected, whose data.csv must still hold what *they* collected
        members.append({"match": r.choice(['replace(1, "***")', 'replace(0, upper(#0)) yes()', 'append("extra", "q") yes()',
                                            'replace(2, concat("L", line_number()))']),
                        "ident": "rewriter", "scan": "*", "unmatched": False})
        method = r.choice(["collect_by_line", "next_by_line", "collect_by_line", "collect_paths"])
    if r.random() < 0.14 and len(recs) >= 3:
        # a member that ends itself early beside a member that acts on the whole group on a later line (fail_all, stop_all,
        # skip_all): what is archived for the first must still be what it is in memory when the run is over
        k1 = r.randint(0, len(recs) - 2)
        k2 = r.randint(k1 + 1, len(recs) - 1)
        early = {"match": r.choice([f"yes() line_number() == {k1} -> stop()", f"@c = count() line_number() == {k1} -> stop()",
                                     f"line_number() == {k1} -> fail_and_stop()"]),
                 "ident": "early", "scan": "*", "unmatched": False}
        whole = {"match": r.choice([f"line_number() == {k2} -> fail_all()", f"yes() line_number() == {k2} -> fail_all()",
                                     f"line_number() == {k2} -> stop_all()", f"line_number() == {k2} -> skip_all()"]),
                 "ident": "whole", "scan": "*", "unmatched": False}
        members = [m for m in members if m["ident"] not in ("early", "whole")][:1]
        members = r.choice([[early, whole] + members, [whole, early] + members, members + [early, whole]])
        method = r.choice(["collect_by_line", "next_by_line", "fast_forward_by_line", "collect_by_line", "collect_paths"])
    if r.random() < 0.1:
        # a member that never starts (run-mode: no-run), in a serial run: it still gets its directory, files and a truthful manifest
        members[r.randrange(len(members))]["norun"] = True
        method = r.choice(["collect_paths", "fast_forward_paths", "next_paths"])
    if r.random() < 0.06:
        recs = []      # a named file without a single line: no member ever tracks a line
    case = {"recs": recs, "members": members, "method": method}
    if i % 5 == 4:
        # the file and the CsvPaths in another dialect
        case["delim"] = r.choice([";", "|", "\t"])
        case["quote"] = r.choice(["'", '"'])
    return case


def member_text(m):
    parts = []
    if m["ident"]:
        parts.append(f"id: {m['ident']}")
    if m.get("unmatched"):
        parts.append("unmatched-mode: keep")
    if m.get("norun"):
        parts.append("run-mode: no-run")
    c = ("~ " + " ".join(parts) + " ~ ") if parts else ""
    return f"{c}$[{m['scan']}][{m['match']}]"


def read_csv_bytes(b, dialect=(",", '"')):
    return [row for row in csv.reader(io.StringIO(b.decode("utf-8"), newline=""), delimiter=dialect[0], quotechar=dialect[1])]


def check_member_dir(res, mdir, mo, collects, what="", dialect=(",", '"')):
    """oracle for one member directory against the in-memory result `mo` (from real_group.member_obs); `dialect` is the run's
    delimiter and quote character: data.csv is written by the line spooler in that dialect (it is what Result.lines and a
    source-mode: preceding member read it with), unmatched.csv by the serializer in the csv module's default dialect"""
    def bad(msg, **kw):
        res["oracle"].append(dict({"what": what + msg, "member": mo["identity"]}, **kw))

    files = {}
    for fn in os.listdir(mdir):
        with open(os.path.join(mdir, fn), "rb") as f:
            files[fn] = f.read()
    for need in ("meta.json", "vars.json", "errors.json", "manifest.json"):
        if need not in files:
            bad(f"{need} is missing")
            return files
    try:
        vars_disk = json.loads(files["vars.json"])
        errs_disk = json.loads(files["errors.json"])
        meta = json.loads(files["meta.json"])
        man = json.loads(files["manifest.json"])
    except Exception as e:  # noqa: BLE001
        bad(f"unreadable json: {e}")
        return files
    if vars_disk != json.loads(json.dumps(mo["variables"], default=str)):
        bad("vars.json differs from the member's final variables", disk=vars_disk, memory=mo["variables"])
    if [e["line_count"] for e in errs_disk] != [e[0] for e in mo["errors"]]:
        bad("errors.json differs from the collected errors", disk=[e["line_count"] for e in errs_disk], memory=mo["errors"])
    if meta.get("identity") != mo["identity"]:
        bad("meta.json identity", disk=meta.get("identity"))
    # printouts
    streams = [(k, v) for k, v in mo.get("printouts_all", [["default", mo["printouts"]]]) ]
    if any(v for _k, v in streams):
        txt = files.get("printouts.txt", b"").decode("utf-8")
        want = "".join(f"---- PRINTOUT: {k}\n" + "".join(p + "\n" for p in v) for k, v in streams)
        if txt != want:
            bad("printouts.txt does not hold the printouts (of every stream) in order", disk=txt[:200], want=want[:200])
    elif "printouts.txt" in files and files["printouts.txt"].strip():
        bad("printouts.txt present although nothing was printed")
    # data / unmatched
    if collects:
        lines = mo["lines"] if isinstance(mo["lines"], list) else None
        if lines:
            if "data.csv" not in files or read_csv_bytes(files["data.csv"], dialect) != lines:
                bad("data.csv does not parse back to the collected lines", memory=lines,
                    disk=read_csv_bytes(files["data.csv"], dialect) if "data.csv" in files else None)
        elif "data.csv" in files and files["data.csv"]:
            bad("data.csv present although no line was collected")
    if mo["unmatched"]:
        if "unmatched.csv" not in files or read_csv_bytes(files["unmatched.csv"]) != mo["unmatched"]:
            bad("unmatched.csv does not parse back to the unmatched lines")
    # the csv model on the two csv files: the text the writer left, and the reader's reading of it
    import driver as _driver

    for fn in ("data.csv", "unmatched.csv"):
        if files.get(fn):
            dl = dialect if fn == "data.csv" else (",", '"')
            try:
                text = files[fn].decode("utf-8")
                rows = read_csv_bytes(files[fn], dl)
            except Exception:  # noqa: BLE001
                continue
            cm = _driver.ask({"op": "csv", "crlf": True, "delim": dl[0], "quote": dl[1], "recs": rows})
            if cm["text"] != text or cm["read"] != rows:
                res.setdefault("disagree", []).append({"what": f"csv model: {fn} as written / as read back", "real_text": text[:300],
                                                       "model_text": cm["text"][:300], "real_rows": rows[:5], "model_rows": (cm["read"] or [])[:5]})
    # manifest
    if man.get("valid") != mo["valid"]:
        bad("manifest valid", disk=man.get("valid"), memory=mo["valid"])
    if "completed" in mo and man.get("completed") != mo["completed"]:
        bad("manifest completed", disk=man.get("completed"), memory=mo["completed"])
    fps = man.get("file_fingerprints") or {}
    for fn, h in fps.items():
        if fn not in files or sha(files[fn]) != h:
            bad(f"manifest fingerprint of {fn} is not the SHA-256 of the bytes on disk")
    for fn in ("data.csv", "meta.json", "unmatched.csv", "printouts.txt", "errors.json", "vars.json"):
        if fn in files and fn not in fps:
            bad(f"{fn} is on disk but has no fingerprint in the manifest")
    return files


def case_archive(case):
    import driver
    import real_group as RG
    import realenv

    realenv.reset_dirs()
    res = {"case": case, "disagree": [], "oracle": [], "nontrivial": False}
    dialect = (case.get("delim", ","), case.get("quote", '"'))
    cp = RG.new_csvpaths(policy=["collect"], csvpath_policy=["collect", "print"], delimiter=dialect[0], quotechar=dialect[1])
    RG.setup_group(cp, "grp", [member_text(m) for m in case["members"]], "food", case["recs"], delimiter=dialect[0], quotechar=dialect[1])
    method = case["method"]
    caller, mobs, raised = RG.run_group(cp, "grp", "food", method)
    if raised:
        res["unmodelled"] = raised
        return res
    if any(has_cycle(m["variables"]) for m in mobs):
        res["unmodelled"] = "self-containing variable"
        return res
    if any(has_recursion_error({"errors": m["errors"]}) for m in mobs):
        res["unmodelled"] = "RecursionError"
        return res
    for pos, m in enumerate(mobs):
        m["completed"] = bool(cp._verif_members[pos]["path"].completed)
    collects = method in ("collect_paths", "next_paths", "collect_by_line", "next_by_line")
    run_dir = mobs[0]["run_dir"] if mobs else None
    if not run_dir or not os.path.isdir(run_dir):
        res["oracle"].append({"what": "no run directory"})
        return res
    if not run_dir.startswith(os.path.join("archive", "grp") + os.sep):
        res["oracle"].append({"what": "run directory is not under archive/<named-paths name>", "dir": run_dir})
    try:
        with open(os.path.join(run_dir, "manifest.json")) as f:
            rman = json.load(f)
    except Exception as e:  # noqa: BLE001
        res["oracle"].append({"what": f"run manifest unreadable: {e}"})
        return res
    want = {"status": "complete", "all_valid": all(m["valid"] for m in mobs), "all_completed": all(m["completed"] for m in mobs),
            "error_count": sum(len(m["errors"]) for m in mobs)}
    got = {k: rman.get(k) for k in want}
    if got != want:
        res["oracle"].append({"what": "run manifest disagrees with the in-memory results", "got": got, "want": want})
    dirs = sorted(d for d in os.listdir(run_dir) if os.path.isdir(os.path.join(run_dir, d)))
    want_dirs = sorted(str(m["identity"]) for m in mobs)
    if dirs != want_dirs:
        res["oracle"].append({"what": "member directories are not named by identity (or index)", "got": dirs, "want": want_dirs})
        return res
    # what "the lines collected" are, independently of the archive: the same member run alone (members here have no cross-path
    # signals; judged only when the lone run is free of errors, whose handling differs between a CsvPath and a CsvPaths)
    if collects and not any("collect(" in mem["match"] or "_all()" in mem["match"] for mem in case["members"]):
        # (stop_all/skip_all/fail_all are cross-path signals: a member beside them does not run as it would alone)
        # (the collect() function narrows lines; in a breadth-first run one member's narrowing reaches the members after it, which
        # C08 excludes as "line-rewriting functions")
        import real_run

        lone_path = real_run.write_file("arch_alone.csv", case["recs"], delimiter=dialect[0], quotechar=dialect[1])
        for pos, m in enumerate(mobs):
            mem = case["members"][pos]
            lone_text = member_text(mem).replace("$[", f"${lone_path}[", 1)
            lone, _ = real_run.run_single(lone_text, "collect", policy=["collect", "print"], delimiter=dialect[0], quotechar=dialect[1])
            if "parse_error" in lone or lone.get("raised") or lone.get("errors") or m["errors"]:
                continue
            if isinstance(m["lines"], list) and lone["lines"] != m["lines"]:
                res["oracle"].append({"what": "the lines a member's result holds (read back from data.csv) are not the lines the csvpath collects",
                                      "member": m["identity"], "archived": m["lines"], "collected_alone": lone["lines"]})
    model_members = []
    for m in mobs:
        files = check_member_dir(res, os.path.join(run_dir, str(m["identity"])), m, collects, dialect=dialect)
        model_members.append({"identity": str(m["identity"]), "nerrors": len(m["errors"]), "printouts": [x for _k, v in m.get("printouts_all", [["default", m["printouts"]]]) for x in v],
                              "lines": (m["lines"] if collects and isinstance(m["lines"], list) else []),
                              "unmatched": m["unmatched"] or [], "valid": m["valid"], "completed": m["completed"],
                              "_files": sorted(fn for fn in files if fn != "manifest.json" and files[fn] != b"")})
    mm = driver.ask({"op": "archive", "members": [{k: v for k, v in x.items() if not k.startswith("_")} for x in model_members]})
    for k, x in enumerate(model_members):
        if mm["members"][k]["files"] != x["_files"]:
            res["disagree"].append({"what": "archive: files of a member directory", "real": x["_files"], "model": mm["members"][k]["files"]})
    if mm["manifest"]["status"] != rman.get("status") or mm["manifest"]["all_valid"] != rman.get("all_valid") or \
            mm["manifest"]["error_count"] != rman.get("error_count"):
        res["disagree"].append({"what": "archive: run manifest", "real": got, "model": mm["manifest"]})
    res["nontrivial"] = any(m["variables"] for m in mobs) and any(isinstance(m["lines"], list) and m["lines"] for m in mobs)
    res["ended"] = "stop" if any(m["stopped"] for m in mobs) else "exhaustion"
    if any(not m["valid"] for m in mobs):
        res["ended"] += "+fail"
    return res


# ---------------------------------------------------------------------------------------------
# C18: aborts
# ---------------------------------------------------------------------------------------------
def gen_case_abort(seed, i):
    r = rng(seed, "abort", i)
    n = r.randint(1, 4)
    nrec = r.randint(2, 8)
    k = r.randrange(n)
    # the aborting member scans from line 1 and meets a bad cell on `line`, or (one case in four) scans from
    # line 0, where the header cell "a" is the bad cell
    line = r.randint(1, nrec - 1) if r.random() < 0.75 else 0
    recs = [["a", "b"]] + [[("x" if j == line else str(j)), r.choice(["p", "q"])] for j in range(1, nrec)]
    # one case in five aborts outside any match component: the collect() function names a column the record on `line` does not
    # have, and the exception leaves CsvPath.next() itself; only CsvPaths' own handler sees it
    outside = line > 0 and r.random() < 0.2
    if outside:
        recs[line] = ["x"]
    members = []
    for j in range(n):
        if j == k:
            mp = r.choice(['add(#a, 1) push("seen", line_number())', 'push("seen", line_number()) @t = add(#a, 1)',
                           'yes() -> multiply(#a, 2)'])
            if outside:
                mp = r.choice(['collect("b") yes()', "collect(1)", 'yes() collect("a", "b")'])
            scan = "*" if line == 0 else "1*"
        else:
            mp = r.choice(['#b == "p" push("s", #a)', "yes()", "@c = count()", 'print("l $.csvpath.line_number")', 'yes() line_number() == 1 -> stop()'])
            # some members are done (bounded scan, stop()) before the abort happens
            scan = r.choice(["1*", "1*", "*", "0-1", "1", "0"])   # bounds inside every generated file
        members.append({"match": mp, "ident": r.choice([None, f"m{j}"]), "scan": scan})
    method = r.choice(["collect_paths", "fast_forward_paths", "next_paths", "collect_by_line", "next_by_line", "fast_forward_by_line"])
    if outside:
        method = r.choice(["collect_paths", "next_paths", "collect_by_line", "next_by_line"])   # the methods that narrow lines
    follow = r.choice(["collect_paths", "collect_by_line", "fast_forward_paths"])
    # the raise policy alone, or together with the other flags (stop and fail also mark the csvpath before the exception leaves)
    policy = r.choice([["raise", "collect"], ["raise", "collect"], ["raise", "collect", "stop"], ["raise", "collect", "stop", "fail", "print"],
                       ["raise", "collect", "fail"]])
    if line >= 2 and r.random() < 0.35:
        # blank lines before the aborting record: they are physical lines (the error is recorded with the physical line number)
        for _ in range(r.randint(1, 2)):
            recs.insert(r.randint(2, line), [])
            line += 1
    return {"recs": recs, "members": members, "k": k, "line": line, "method": method, "follow": follow, "policy": policy}


def tree(root):
    out = {}
    for d, _, fs in os.walk(root):
        for fn in fs:
            p = os.path.join(d, fn)
            with open(p, "rb") as f:
                out[os.path.relpath(p, root)] = sha(f.read())
    return out


def case_abort(case):
    import driver
    import real_group as RG
    import realenv

    realenv.reset_dirs()
    res = {"case": case, "disagree": [], "oracle": [], "nontrivial": True}
    pol = case.get("policy") or ["raise", "collect"]
    cp = RG.new_csvpaths(policy=["raise", "collect"], csvpath_policy=pol)
    RG.setup_group(cp, "grp", [member_text(m) for m in case["members"]], "food", case["recs"])
    # a clean second group for the follow-up run
    cp.paths_manager.add_named_paths(name="after", paths=['~ id: ok ~ $[*][yes()]'])
    inputs_before = tree("inputs")
    method = case["method"]
    caller, mobs, raised = RG.run_group(cp, "grp", "food", method)
    k, line = case["k"], case["line"]
    serial = not method.endswith("by_line")
    if not raised:
        res["oracle"].append({"what": "the aborting exception did not reach the caller", "method": method})
        return res
    if tree("inputs") != inputs_before:
        res["oracle"].append({"what": "the named-files / named-paths stores changed during an aborted run"})
    rdirs = [d for d in os.listdir(os.path.join("archive", "grp"))] if os.path.isdir(os.path.join("archive", "grp")) else []
    if len(rdirs) != 1:
        res["oracle"].append({"what": "an aborted run did not leave exactly one run directory", "dirs": rdirs})
        return res
    run_dir = os.path.join("archive", "grp", rdirs[0])
    try:
        with open(os.path.join(run_dir, "manifest.json")) as f:
            rman = json.load(f)
    except Exception as e:  # noqa: BLE001
        res["oracle"].append({"what": f"run manifest unreadable after an abort: {e}"})
        return res
    if rman.get("status") == "complete":
        res["oracle"].append({"what": "the run manifest claims status complete after an abort"})
    started = list(range(k + 1)) if serial else list(range(len(case["members"])))
    idents = [str(m["ident"]) if m["ident"] else str(j) for j, m in enumerate(case["members"])]
    dirs = sorted(d for d in os.listdir(run_dir) if os.path.isdir(os.path.join(run_dir, d)))
    if dirs != sorted(idents[j] for j in started):
        res["oracle"].append({"what": "result directories after an abort are not exactly those of the started members",
                              "got": dirs, "want": sorted(idents[j] for j in started)})
        return res
    by_id = {str(m["identity"]): m for m in mobs}
    for j in started:
        mdir = os.path.join(run_dir, idents[j])
        mo = by_id.get(idents[j])
        if mo is None:
            res["oracle"].append({"what": "a started member has no in-memory result", "member": idents[j]})
            continue
        mo = dict(mo)
        mo["completed"] = bool(cp._verif_members[j]["path"].completed) if j < len(cp._verif_members) else False
        if j == k:
            # the aborting member: readable files, the error with its line number, completed false
            files = check_member_dir(res, mdir, {**mo, "lines": None}, False, what="aborting member: ")
            try:
                errs = json.loads(files.get("errors.json", b"[]"))
                man = json.loads(files.get("manifest.json", b"{}"))
            except Exception as e:  # noqa: BLE001
                res["oracle"].append({"what": f"aborting member files unreadable: {e}"})
                continue
            if line not in [e.get("line_count") for e in errs]:
                res["oracle"].append({"what": "errors.json of the aborting member does not contain the aborting error with its line number",
                                      "lines": [e.get("line_count") for e in errs], "want": line})
            if man.get("completed") is not False:
                # known finding: `completed` is purely positional (scanner.is_last of the current line), so an
                # abort on the member's last scanned line is archived as completed
                fid = "abort-on-last-line-completed" if line == len(case["recs"]) - 1 else None
                res["oracle"].append({"what": "manifest of the aborting member does not say completed false", "got": man.get("completed"),
                                      "finding": fid})
        elif not serial:
            # breadth-first: every other member was running or already done when the abort came; its record must be
            # there, readable and in step with its in-memory result
            check_member_dir(res, mdir, {**mo, "lines": None}, False, what="other member of an aborted breadth-first run: ")
        elif serial:
            check_member_dir(res, mdir, mo, method in ("collect_paths", "next_paths"), what="earlier member: ")
            try:
                with open(os.path.join(mdir, "manifest.json")) as f:
                    man = json.load(f)
                # (a member that ended itself with stop() did not read its scan to the end: no claim about its flag)
                if man.get("completed") is not True and "stop()" not in case["members"][j]["match"]:
                    res["oracle"].append({"what": "a member that finished before the abort is not marked completed", "member": idents[j]})
            except Exception as e:  # noqa: BLE001
                res["oracle"].append({"what": f"earlier member manifest unreadable: {e}"})
    # model: which member directories exist and what the run manifest says
    if serial:
        mm = driver.ask({"op": "archive", "abort_at": k, "members": [
            {"identity": idents[j], "nerrors": 0, "printouts": [], "lines": [], "unmatched": [], "valid": True, "completed": j != k}
            for j in range(len(case["members"]))]})
        if [x["identity"] for x in mm["members"]] != [idents[j] for j in started] or mm["manifest"]["status"] == "complete" or not mm["raised"]:
            res["disagree"].append({"what": "abort: model member directories / status", "model": mm})
    # a subsequent run on the same instance archives normally
    before = tree("archive")
    caller2, mobs2, raised2 = RG.run_group(cp, "after", "food", case["follow"])
    if raised2:
        res["oracle"].append({"what": f"the run after an aborted run raised {raised2}"})
        return res
    after = tree("archive")
    changed = [p for p in before if p != "manifest.json" and after.get(p) != before[p]]
    if changed:
        res["oracle"].append({"what": "the run after an abort changed the aborted run's files", "files": changed[:4]})
    adirs = os.listdir(os.path.join("archive", "after")) if os.path.isdir(os.path.join("archive", "after")) else []
    if len(adirs) != 1:
        res["oracle"].append({"what": "the run after an abort did not get its own run directory under its own name", "dirs": adirs})
    else:
        with open(os.path.join("archive", "after", adirs[0], "manifest.json")) as f:
            if json.load(f).get("status") != "complete":
                res["oracle"].append({"what": "the run after an abort is not archived as complete"})
    return res
