"""Suite `paths` (C12): named-paths groups — round trip, selection by identity, manifest."""
import hashlib
import json
import os

import driver
from core import rng

GROUPS = ["grp_a", "grp_b"]


def enc(s):
    return [[ord(c), c.isalnum(), c.isspace()] for c in s]


def gen_path(r, ident=None, key="id"):
    scan = r.choice(["*", "1*", "1-3", "0+2"])
    comps = r.sample(['yes()', '#a == "x"', '@v = count()', 'push("s", #b)', '~ inner: note ~ no()', 'print("hi $.csvpath.line_number")',
                      '#a -> @w = "q"', 'not(#b)', 'above(#n, 2)'], r.randint(1, 3))
    sep = r.choice([" ", "\n", "\n   "])
    body = f"$file.csv[{scan}][{sep.join(comps)}]"
    if r.random() < 0.3:
        body = body.replace("][", "]\n[")
    comment = ""
    if ident is not None:
        extra = r.choice(["", " description: does things", " test: yes"])
        comment = f"~ {key}: {ident}{extra} ~" + r.choice([" ", "\n", ""])
    elif r.random() < 0.3:
        comment = "~ just a note, no identity ~\n"
    return comment + body


def gen_list(r):
    n = r.randint(1, 5)
    ids = r.sample(["first", "second", "third", "p4", "p5", "x_1", "a-b"], n)
    out = []
    for i in range(n):
        has = r.random() < 0.7
        key = r.choice(["id", "id", "name", "ID", "Name"])
        out.append((ids[i] if has else None, gen_path(r, ids[i] if has else None, key)))
    return out


def sha_file(p):
    with open(p, "rb") as f:
        return hashlib.sha256(f.read()).hexdigest()


def case_history(case):
    """case: {ops: [{op: add|remove|new|get, group, list: [(id|None, text)]}]}"""
    import real_run  # noqa: F401  (enters the private work dir before csvpath is imported)
    import realenv
    from csvpath import CsvPaths

    realenv.reset_dirs()
    res = {"case": case, "disagree": [], "oracle": []}
    cp = CsvPaths()
    current = {}  # group -> list of (id, text)
    written = {}  # group -> list of fingerprints written (history)
    for step, op in enumerate(case["ops"]):
        g = op.get("group")
        if op["op"] == "add":
            paths = [t for _, t in op["list"]]
            try:
                cp.paths_manager.add_named_paths(name=g, paths=paths)
            except Exception as e:  # noqa: BLE001
                res["oracle"].append({"what": f"add_named_paths raised {e.__class__.__name__}", "step": step, "group": g})
                break
            current[g] = op["list"]
        elif op["op"] == "remove":
            cp.paths_manager.remove_named_paths(g)
            current.pop(g, None)
            written.pop(g, None)
        elif op["op"] == "new":
            cp = CsvPaths()
        # ---- observe every group ----
        for gg in GROUPS:
            pm = cp.paths_manager
            if gg not in current:
                if pm.has_named_paths(gg):
                    res["oracle"].append({"what": "a removed/unknown group still exists", "step": step, "group": gg})
                continue
            lst = current[gg]
            texts = [t for _, t in lst]
            try:
                got = pm.get_named_paths(gg)
            except Exception as e:  # noqa: BLE001
                res["oracle"].append({"what": f"get_named_paths raised {e.__class__.__name__} for a group that was added", "step": step, "group": gg})
                continue
            if got is None or [x.strip() for x in got] != [t.strip() for t in texts]:
                res["oracle"].append({"what": "get_named_paths does not return the csvpaths that were added, in order",
                                      "step": step, "group": gg, "got": got, "want": texts})
                continue
            # manifest: one entry per change of the group file
            home = pm.named_paths_home(gg)
            gf = os.path.join(home, "group.csvpaths")
            fp = sha_file(gf)
            w = written.setdefault(gg, [])
            if not w or w[-1] != fp:
                w.append(fp)
            with open(os.path.join(home, "manifest.json")) as f:
                man = json.load(f)
            if [m["fingerprint"] for m in man] != w:
                res["oracle"].append({"what": "manifest entries (one per change of the group file, none for an identical re-add)",
                                      "step": step, "group": gg, "got": [m["fingerprint"][:8] for m in man], "want": [x[:8] for x in w]})
            # model: group file, read-back, identities
            m = driver.ask({"op": "paths", "paths": [enc(t) for t in texts], "ident": ""})
            with open(gf, encoding="utf-8") as f:
                real_group = f.read()
            if m["group"] != real_group:
                res["disagree"].append({"what": "paths: group file text", "step": step})
            if m["back"] != got:
                res["disagree"].append({"what": "paths: _get_named_paths", "step": step, "real": got, "model": m["back"]})
            ids = [i for i, _ in lst]
            if [x or None for x in m["ids"]] != ids:
                res["disagree"].append({"what": "paths: identities", "step": step, "real": ids, "model": m["ids"]})
            # selection by identity
            for k, (ident, text) in enumerate(lst):
                if ident is None:
                    continue
                ms = driver.ask({"op": "paths", "paths": [enc(t) for t in texts], "ident": ident})
                for form, want, mod in ((f"{gg}#{ident}", [text], [ms["one"]]),
                                        (f"${gg}.csvpaths.{ident}", [text], [ms["one"]]),
                                        (f"{gg}#{ident}:from", texts[k:], ms["from"]),
                                        (f"${gg}.csvpaths.{ident}:from", texts[k:], ms["from"]),
                                        (f"{gg}#{ident}:to", texts[: k + 1], ms["to"]),
                                        (f"${gg}.csvpaths.{ident}:to", texts[: k + 1], ms["to"])):
                    try:
                        sel = pm.get_named_paths(form)
                    except Exception as e:  # noqa: BLE001
                        sel = f"raised {e.__class__.__name__}"
                    if not isinstance(sel, list) or [x.strip() for x in sel] != [t.strip() for t in want]:
                        res["oracle"].append({"what": f"selection {form} does not return the right member(s)", "step": step,
                                              "got": sel, "want": want})
                    if isinstance(sel, list) and sel != mod:
                        res["disagree"].append({"what": f"paths: selection {form}", "step": step, "real": sel, "model": mod})
            # an identity that no member of the group carries (never added, or dropped by a replacement) selects nothing
            present = {i for i, _ in lst if i}
            for absent in ["nosuch", "zz9"] + [i for g2, l2 in current.items() if g2 != gg for i, _ in l2 if i and i not in present][:2]:
                if absent in present:
                    continue
                for form in (f"{gg}#{absent}", f"${gg}.csvpaths.{absent}"):
                    try:
                        sel = pm.get_named_paths(form)
                    except Exception as e:  # noqa: BLE001
                        sel = f"raised {e.__class__.__name__}"
                    if isinstance(sel, list) and sel:
                        res["oracle"].append({"what": f"selection {form}: no member has that identity, yet csvpaths were returned",
                                              "step": step, "got": sel})
        if res["oracle"] or res["disagree"]:
            break
    res["nontrivial"] = sum(1 for o in case["ops"] if o["op"] == "add") >= 2
    return res


def gen_history(seed, i, maxlen=5):
    r = rng(seed, "paths", i)
    ops = []
    lists = {}
    older = {}   # group -> lists it held before (reverting to one of them is a change like any other)
    removed = {}  # group -> the list it held when it was removed (re-adding exactly that is a first add of a new group)

    def replace(g, lst):
        if g in lists:
            older.setdefault(g, []).append(lists[g])
        lists[g] = lst
        ops.append({"op": "add", "group": g, "list": lst})

    for _ in range(r.randint(1, maxlen)):
        k = r.random()
        g = r.choice(GROUPS)
        if g not in lists and g in removed and r.random() < 0.6:
            replace(g, removed.pop(g))                           # removed, then added again with the very same content
        elif g not in lists or k < 0.4:
            replace(g, gen_list(r))                              # first add / new content
        elif k < 0.55:
            ops.append({"op": "add", "group": g, "list": lists[g]})  # identical re-add
        elif k < 0.65 and len(lists[g]) >= 2:
            perm = lists[g][:]
            r.shuffle(perm)
            replace(g, perm)                                     # the same members in another order (same length on disk)
        elif k < 0.7:
            # one character of one member changed (same length on disk)
            lst = [list(x) for x in lists[g]]
            j = r.randrange(len(lst))
            t = lst[j][1]
            for a, b in (("[*]", "[1]"), ("1*", "2*"), ("1-3", "1-2"), ("0+2", "0+3"), ('"x"', '"y"'), ("yes()", "not()")):
                if a in t:
                    lst[j][1] = t.replace(a, b, 1)
                    break
            replace(g, [tuple(x) for x in lst])
        elif k < 0.75 and older.get(g):
            replace(g, r.choice(older[g]))                       # back to earlier content (A, B, A)
        elif k < 0.75:
            replace(g, gen_list(r))
        elif k < 0.88:
            ops.append({"op": "remove", "group": g})
            removed[g] = lists[g]
            lists.pop(g, None)
            older.pop(g, None)
        else:
            ops.append({"op": "new"})
    return {"ops": ops}
