"""Suite `history` (C10): sequences of named-paths runs with an injected clock."""
import datetime as _dt
import hashlib
import itertools
import os

import driver
from core import rng

GROUPS = ["alpha", "beta"]
CLOCKS = ["same", "plus1", "noon", "midnight"]
BASE = _dt.datetime(2026, 9, 29, 12, 59, 58, tzinfo=_dt.timezone.utc)


class FakeDatetime(_dt.datetime):
    current = BASE

    @classmethod
    def now(cls, tz=None):
        return cls.current


def next_time(t, clock):
    if clock == "same":
        return t
    if clock == "plus1":
        return t + _dt.timedelta(seconds=1)
    if clock == "noon":
        # jump to 12:59:59 of the next day if needed, so that the following +1s crosses 13:00
        d = t.replace(hour=12, minute=59, second=59)
        if d <= t:
            d = d + _dt.timedelta(days=1)
        return d
    if clock == "midnight":
        d = t.replace(hour=23, minute=59, second=59)
        if d <= t:
            d = d + _dt.timedelta(days=1)
        return d
    raise ValueError(clock)


def tree_hashes(root):
    out = {}
    for d, _, fs in os.walk(root):
        for fn in fs:
            p = os.path.join(d, fn)
            with open(p, "rb") as f:
                out[os.path.relpath(p, root)] = hashlib.sha256(f.read()).hexdigest()
    return out


def case_history(case):
    """case: {runs: [{group, instance: new|reused, method, clock}]}"""
    import real_group as RG
    import realenv
    import csvpath.csvpaths as cps_mod

    realenv.reset_dirs()
    cps_mod.datetime = FakeDatetime
    if case.get("tz"):
        # the host's zone has daylight saving time and the history crosses its end: local wall-clock time goes backwards,
        # run directory names must not
        import time as _time

        old_tz = os.environ.get("TZ")
        os.environ["TZ"] = case["tz"]
        _time.tzset()
        try:
            return _case_history(case, RG, realenv, _dt.datetime(2026, 10, 25, 0, 59, 57, tzinfo=_dt.timezone.utc))
        finally:
            if old_tz is None:
                os.environ.pop("TZ", None)
            else:
                os.environ["TZ"] = old_tz
            _time.tzset()
    return _case_history(case, RG, realenv, BASE)


def _case_history(case, RG, realenv, BASE):
    res = {"case": case, "disagree": [], "oracle": []}
    recs = [["a", "b"], ["1", "x"], ["2", "y"], ["3", "x"]]
    paths = {"alpha": ['~ id: keep ~ $[*][#b == "x"]', '$[1*][@n = count() yes()]'],
             "beta": ['~ id: keep ~ $[1*][yes()]']}
    cp = RG.new_csvpaths(policy=["collect"], csvpath_policy=["collect"])
    for g in GROUPS:
        RG.setup_group(cp, g, paths[g], "food", recs)
    t = BASE
    run_dirs = []  # (group, dirname, time)
    model_req = []
    prev = {}
    for step, run in enumerate(case["runs"]):
        t = next_time(t, run["clock"]) if step > 0 else BASE
        # two further ticks so that noon/midnight jumps are followed by a crossing
        if step > 0 and run["clock"] in ("noon", "midnight") and case["runs"][step - 1]["clock"] == run["clock"]:
            t = t + _dt.timedelta(seconds=1)
        FakeDatetime.current = t
        if run["instance"] == "new":
            cp = RG.new_csvpaths(policy=["collect"], csvpath_policy=["collect"])
        before = tree_hashes("archive")
        abandon = bool(run.get("abandon")) and run["method"] in ("next_paths", "next_by_line")
        if abandon:
            # keep the abandoned generators of every instance alive for the whole history
            res.setdefault("_gens", [])
        caller, mobs, raised = RG.run_group(cp, run["group"], "food", run["method"], **({"take": 1} if abandon else {}))
        if abandon:
            res["_gens"].append(cp)
        if raised:
            res["oracle"].append({"what": f"run raised {raised}", "step": step})
            break
        after = tree_hashes("archive")
        # immutability of every earlier run's files
        changed = [k for k in before if k != "manifest.json" and after.get(k) != before[k]]
        if changed:
            res["oracle"].append({"what": "a run changed or removed files of an earlier run", "step": step, "files": changed[:5]})
        new_files = [k for k in after if k not in before and k != "manifest.json"]
        tops = sorted(set(os.path.join(*k.split(os.sep)[:2]) for k in new_files))
        want_top_group = run["group"]
        if abandon and len(tops) == 0:
            # walked away before the run wrote anything: no directory to account for
            model_req.append(None)
            run_dirs.append(None)
            continue
        if len(tops) != 1 or not tops[0].startswith(want_top_group + os.sep):
            res["oracle"].append({"what": "a run did not write under exactly one new directory of its own named-paths name",
                                  "step": step, "new_dirs": tops, "group": run["group"]})
            break
        dname = tops[0].split(os.sep)[1]
        if (run["group"], dname) in [(x[0], x[1]) for x in run_dirs if x]:
            res["oracle"].append({"what": "a run reused an earlier run's directory", "step": step, "dir": tops[0]})
        run_dirs.append((run["group"], dname, t))
        has_data = res.setdefault("_has_data", {})
        has_data[(run["group"], dname)] = run["method"] in ("collect_paths", "next_paths", "collect_by_line", "next_by_line")
        model_req.append({"group": run["group"], "ts": [t.year, t.month, t.day, t.hour, t.minute, t.second]})
        # chronological order by name, and :last / :first through the API
        mine = [(x[1], x[2]) for x in run_dirs if x and x[0] == run["group"]]
        if abandon:
            continue       # an abandoned run has no data.csv yet: :last/:first are asked after complete runs only
        secs = {}
        for d, tt in mine:
            secs.setdefault(tt, []).append(d)
        distinct = [(ds[0], tt) for tt, ds in secs.items() if len(ds) == 1]
        for (d1, t1), (d2, t2) in itertools.combinations(distinct, 2):
            if (d1 < d2) != (t1 < t2):
                res["oracle"].append({"what": "run directory names do not order chronologically", "a": d1, "b": d2})
        prefix = "2026-"
        latest_t = max(tt for _, tt in mine)
        earliest_t = min(tt for _, tt in mine)
        for var, want_t in ((":last", latest_t), (":first", earliest_t)):
            ref = f"${run['group']}.results.{prefix}{var}.keep"
            try:
                got = cp.results_manager.data_file_for_reference(ref)
            except Exception as e:  # noqa: BLE001
                got = f"raised {e.__class__.__name__}"
            want_dirs = secs[want_t]
            ok = isinstance(got, str) and any(os.sep + d + os.sep in got for d in want_dirs) and got.endswith(os.path.join("keep", "data.csv"))
            if not ok and got.startswith("raised ") and not all(has_data[(run["group"], d)] for d in want_dirs):
                ok = True    # the run the reference names left no data.csv: nothing to resolve to (and no other run's data will do)
            if not ok:
                res["oracle"].append({"what": f"results reference with {var} does not resolve to the {'most recent' if var == ':last' else 'earliest'} run",
                                      "step": step, "got": got, "want_one_of": want_dirs})
        if res["oracle"]:
            break
    # model: directory names and resolutions
    if not res["oracle"]:
        kept = [k for k, q in enumerate(model_req) if q is not None]
        m = driver.ask({"op": "rundirs", "runs": [model_req[k] for k in kept], "prefix": ["2026-"]})
        for k, mr in zip(kept, m["runs"]):
            if mr is None or mr["dir"] != run_dirs[k][1]:
                res["disagree"].append({"what": "run directory name", "step": k, "real": run_dirs[k][1], "model": mr})
    res["nontrivial"] = len(case["runs"]) >= 2
    res.pop("_gens", None)
    res.pop("_has_data", None)
    return res


def all_kinds():
    return [{"group": g, "instance": i, "clock": c} for g in GROUPS for i in ("new", "reused") for c in CLOCKS]
