"""Suite `errors` (C05): error policy × validation-mode × error kind × position."""
import itertools

import driver
from core import rng

WORDS = ["raise", "collect", "stop", "fail", "print", "quiet"]
FAMS = ["raise", "print", "stop", "fail", "match"]


def eff(conf, ov):
    return conf if ov is None else ov


def want_override(tokens):
    o = {}
    for f in FAMS:
        o[f] = False if ("no-" + f) in tokens else (True if f in tokens else None)
    return o


# ---- unit level: the real ErrorHandler and the real ValidationMode against the model ----------
def case_unit(case):
    """case: {policy: [...], vmode: str|None, n: number of errors}"""
    import real_run
    from csvpath import CsvPath
    from csvpath.util.error import ErrorHandler

    real_run.write_file("u.csv", [["a"], ["1"]])
    text = "$data/u.csv[*][yes()]"
    if case["vmode"] is not None:
        text = f"~ validation-mode: {case['vmode']} ~ " + text
    p, rp = real_run.make_path(text, policy=case["policy"])
    p.parse(text)
    res = {"case": case, "disagree": [], "oracle": []}
    real_ov = {"raise": p.raise_validation_errors, "print": p.print_validation_errors, "stop": p.stop_on_validation_errors,
               "fail": p.fail_on_validation_errors, "match": p.match_validation_errors}
    raised = False
    for i in range(case["n"]):
        try:
            ex = ValueError(f"e{i}")
            ErrorHandler(csvpath=p, error_collector=p).handle_error(ex)
        except Exception as e:  # noqa: BLE001
            raised = e.__class__.__name__
            break
    real = {"raised": bool(raised), "stopped": bool(p.stopped), "valid": bool(p.is_valid),
            "collected": len(p.errors or []), "printed": len(rp.entries)}
    if raised and raised != "MatchException":
        res["oracle"].append({"what": f"error handling itself failed with {raised}", "policy": case["policy"]})
    m = driver.ask({"op": "policy", "policy": case["policy"], "vmode": case["vmode"], "errors": list(range(case["n"]))})
    model = {"raised": m["raised"], "stopped": m["stopped"], "valid": m["valid"], "collected": len(m["collected"]),
             "printed": len(m["printed"])}
    if m["override"] != real_ov:
        res["disagree"].append({"what": "validation-mode flags", "real": real_ov, "model": m["override"]})
    if model != real:
        res["disagree"].append({"what": "effects of handling the errors", "real": real, "model": model})
    # oracle: documented tokens read as intended; effects are the conjunction of the flags
    if case.get("tokens") is not None:
        want = want_override(case["tokens"])
        if real_ov != want:
            res["oracle"].append({"what": "validation-mode setting not read as written", "vmode": case["vmode"], "got": real_ov, "want": want})
        pol = case["policy"]
        r = eff("raise" in pol, want["raise"])
        k = min(1, case["n"]) if r else case["n"]
        want_eff = {"raised": r and case["n"] > 0, "stopped": eff("stop" in pol, want["stop"]) and case["n"] > 0,
                    "valid": not (eff("fail" in pol, want["fail"]) and case["n"] > 0),
                    "collected": k if "collect" in pol else 0, "printed": k if eff("print" in pol, want["print"]) else 0}
        if real != want_eff and not res["oracle"]:
            res["oracle"].append({"what": "error handled differently from what the policy flags say", "policy": pol,
                                  "vmode": case["vmode"], "got": real, "want": want_eff})
    return res


# ---- run level ----------------------------------------------------------------------------------
KINDS = {
    "args": ("add(#a, 1)", "a"),
    "args2": ("multiply(#a, 2)", "a"),
    "python": ("mod(#n, #d)", "d"),
    "python2": ("round(#a)", "a"),
    "nested": ("exists(add(#a, 1))", "a"),
    "righthand": ("yes() -> add(#a, 1)", "a"),
    "assign": ("@v = add(#a, 1)", "a"),
    # a Python exception on the value path under an equality: it travels up to the Expression's own trap
    "assignpy": ("@v = round(#a)", "a"),
    "whenpy": ("yes() -> @v = mod(#n, #d)", "d"),
    # the erroring function guards a fail(): an error is not a match of the left side, so the right side must not run and the
    # verdict is the policy's doing alone
    "guardfail": ("above.nocontrib(add(#a, 1), 100) -> fail()", "a"),
    "guardfail2": ("equals.nocontrib(mod(#n, #d), 100) -> fail_and_stop()", "d"),
}
GUARD_KINDS = ["guardfail", "guardfail2"]
# kinds in which the erroring function is the component itself (or the value of its assignment / the do-part of its when):
# with validation-mode: match the component then counts as matching; a function *around* the erroring one decides for itself
# (a Python exception in a bare function component is trapped by that function, which then simply does not match: left out)
MATCH_KINDS = ["args", "args2", "righthand", "assign", "assignpy", "whenpy"]


def case_run(case):
    """case: {policy, tokens, kind, n (data lines), bad: [line numbers], place: first|last}"""
    import real_run

    comp, col = KINDS[case["kind"]]
    n = case["n"]
    recs = [["a", "n", "d"]]
    for i in range(1, n + 1):
        bad = i in case["bad"]
        a = "x" if (bad and col == "a") else str(i)
        d = "0" if (bad and col == "d") else "2"
        recs.append([a, "7", d])
    path = real_run.write_file("er.csv", recs)
    marker = 'push("seen", line_number())'
    match = f"{marker} {comp}" if case["place"] == "last" else f"{comp} {marker}"
    vm = ", ".join(case["tokens"]) if case["tokens"] is not None else None
    # one case in four scans from line 0: the header record then is the first offending line (its cells are not numbers)
    lo = 0 if case.get("from0") else 1
    text = (f"~ validation-mode: {vm} ~ " if vm else "") + f"${path}[{'*' if lo == 0 else '1*'}][{match}]"
    out, p = real_run.run_single(text, "collect", policy=case["policy"])
    res = {"case": case, "disagree": [], "oracle": [], "text": text}
    if "parse_error" in out:
        res["parse_error"] = out["parse_error"]
        return res
    pol = case["policy"]
    ov = want_override(case["tokens"] or [])
    r = eff("raise" in pol, ov["raise"])
    st = eff("stop" in pol, ov["stop"])
    fl = eff("fail" in pol, ov["fail"])
    pr = eff("print" in pol, ov["print"])
    co = "collect" in pol
    bad = sorted(set(case["bad"]) | ({0} if lo == 0 else set()))
    first = bad[0] if bad else None
    # which lines are evaluated
    if bad and (r or st):
        want_calls = list(range(lo, first + 1))
        handled_lines = [first]
    else:
        want_calls = list(range(lo, n + 1))
        handled_lines = bad
    calls = [c["idx"] for c in out["calls"]]
    if calls != want_calls:
        res["oracle"].append({"what": "stop flag: the lines evaluated are not those the policy implies", "got": calls, "want": want_calls})
    got_raise = out.get("raised")
    if bool(got_raise) != bool(r and bad):
        res["oracle"].append({"what": "raise flag: exception reaching the caller", "got": got_raise, "want": bool(r and bad)})
    if got_raise and got_raise != "MatchException":
        res["oracle"].append({"what": f"unexpected exception class {got_raise}"})
    err_lines = sorted(set(e[0] for e in out["errors"]))
    if err_lines != (handled_lines if co else []):
        res["oracle"].append({"what": "collect flag: error records (by line number)", "got": out["errors"], "want_lines": handled_lines if co else []})
    if out["flags"]["valid"] != (not (fl and bad)):
        res["oracle"].append({"what": "fail flag: validity", "got": out["flags"]["valid"], "want": not (fl and bad)})
    nprint = len(out["printouts"])
    if (nprint > 0) != bool(pr and bad):
        res["oracle"].append({"what": "print flag: printer entries", "got": out["printouts"][:2], "want_any": bool(pr and bad)})
    if co and pr and nprint != len(out["errors"]):
        res["oracle"].append({"what": "print and collect: one printout per error record", "printed": nprint, "collected": len(out["errors"])})
    # lines returned: erroring lines do not match unless validation-mode says match
    if not got_raise:
        lines = out["lines"] or []
        # the returned lines are in file order: place each on the first record after its predecessor that has its cells
        # (offending records are equal to each other)
        returned, at = [], 0
        for l in lines:
            while at < len(recs) and recs[at] != l:
                at += 1
            returned.append(at)
            at += 1
        clean = [i for i in want_calls if i not in bad]
        if [i for i in returned if i not in bad] != clean:
            res["oracle"].append({"what": "a clean line did not match", "got": returned, "want_clean": clean})
        if ov["match"] is not True and any(i in bad for i in returned):
            res["oracle"].append({"what": "an erroring line matched although validation-mode does not say match",
                                  "got": returned, "bad": bad})
        # ... and with validation-mode: match an erroring component counts as matching, so the line is returned (the other
        # component of the line always matches; a run that stops on the error is C13's stop clause and is left out); the lines the run reached are `want_calls`
        if ov["match"] is True and not st and case["kind"] in MATCH_KINDS:
            missing = [i for i in bad if i in want_calls and i not in returned]
            if missing:
                res["oracle"].append({"what": "an erroring line did not match although validation-mode says match",
                                      "got": returned, "bad": bad, "missing": missing})
    # model tie on this run: handling of the errors of the first erroring line
    if bad and co:
        k = sum(1 for e in out["errors"] if e[0] == first)
        m = driver.ask({"op": "policy", "policy": pol, "vmode": vm, "errors": [first] * k})
        model = {"raised": m["raised"], "valid": m["valid"]}
        real = {"raised": bool(got_raise), "valid": out["flags"]["valid"]}
        if model != real:
            res["disagree"].append({"what": "run level: model effects vs real", "real": real, "model": model})
    res["nontrivial"] = bool(bad) and len(bad) < n
    return res


def gen_unit_cases(seed, tier):
    r = rng(seed, "errors-unit")
    cases = []
    combos = list(itertools.product([None, True, False], repeat=5))
    for mask in range(64):
        pol = [WORDS[i] for i in range(6) if mask >> i & 1]
        sample = combos if tier == "thorough" else r.sample(combos, 12)
        for c in sample:
            toks = []
            for f, v in zip(FAMS, c):
                if v is True:
                    toks.append(f)
                elif v is False:
                    toks.append("no-" + f)
            r.shuffle(toks)
            vm = ", ".join(toks) if toks else None
            cases.append({"policy": pol, "vmode": vm, "tokens": toks, "n": r.randint(1, 3)})
    # malformed / free-form validation-mode strings: correspondence only
    junk = ["", "raise,print", "no-raise no-print", "RAISE", "printer", "nostop", "match, no-match", "fail fail", "collect", "log, no-log"]
    for j in junk:
        cases.append({"policy": r.sample(WORDS, 2), "vmode": j, "tokens": None, "n": 2})
    return cases


def gen_run_cases(seed, tier):
    r = rng(seed, "errors-run")
    cases = []
    total = 900 if tier == "quick" else 20000
    for i in range(total):
        mask = r.randint(0, 63) if tier == "quick" else i % 64
        pol = [WORDS[j] for j in range(6) if mask >> j & 1]
        toks = None
        if r.random() < 0.4:
            toks = []
            for f in FAMS:
                x = r.random()
                if x < 0.2:
                    toks.append(f)
                elif x < 0.4:
                    toks.append("no-" + f)
            r.shuffle(toks)
            if not toks:
                toks = None
        n = r.randint(2, 5)
        nb = r.choice([0, 1, 1, 1, 2])
        bad = sorted(r.sample(range(1, n + 1), min(nb, n)))
        cases.append({"policy": pol, "tokens": toks, "kind": r.choice(list(KINDS)), "n": n, "bad": bad,
                      "place": r.choice(["first", "last"]), "from0": r.random() < 0.25})
    return cases


# ---- errors in components brought in by import() -------------------------------------------------
IMPORTABLE = ["args", "args2", "assign", "assignpy", "righthand"]


def case_import(case):
    """case: {policy, tokens, kind, n, bad, method}: the erroring component is written in another named csvpath and brought in with
    import(); the run must handle its errors exactly as it handles them when the component is written inline (which `case_run`
    judges against the policy)"""
    import real_group as RG
    import realenv

    comp, col = KINDS[case["kind"]]
    n = case["n"]
    recs = [["a", "n", "d"]]
    for i in range(1, n + 1):
        bad = i in case["bad"]
        recs.append(["x" if (bad and col == "a") else str(i), "7", "0" if (bad and col == "d") else "2"])
    vm = ", ".join(case["tokens"]) if case["tokens"] is not None else None
    cm = f"validation-mode: {vm} " if vm else ""
    marker = 'push("seen", line_number())'
    res = {"case": case, "disagree": [], "oracle": [], "nontrivial": bool(case["bad"])}
    obs = {}
    for variant in ("inline", "import"):
        realenv.reset_dirs()
        cp = RG.new_csvpaths(policy=["collect"], csvpath_policy=case["policy"])
        cp.paths_manager.add_named_paths(name="libs", paths=[f"~ id: lib ~ $[*][{comp}]"])
        body = comp if variant == "inline" else "import($libs.csvpaths.lib)"
        RG.setup_group(cp, "main", [f"~ id: m {cm}~ $[1*][{marker} {body}]"], "food", recs)
        caller, mobs, raised = RG.run_group(cp, "main", "food", case["method"])
        if not mobs:
            obs[variant] = {"raised": raised}
            continue
        m = mobs[0]
        obs[variant] = {"raised": raised, "lines": m["lines"] if case["method"] != "fast_forward_paths" else None,
                        "error_lines": sorted(e[0] for e in m["errors"]), "valid": m["valid"], "stopped": m["stopped"],
                        "printed": len(m["printouts"]), "seen": (m["variables"] or {}).get("seen")}
    if obs["inline"] != obs["import"]:
        res["oracle"].append({"what": "an error in a component brought in by import() is handled differently from the same component written inline",
                              "inline": obs["inline"], "import": obs["import"]})
    return res


def gen_import_cases(seed, tier):
    r = rng(seed, "errors-import")
    cases = []
    for i in range(60 if tier == "quick" else 3000):
        mask = r.randint(0, 63)
        pol = [WORDS[j] for j in range(6) if mask >> j & 1 and WORDS[j] != "raise"]
        toks = None
        if r.random() < 0.3:
            toks = [t for t in (r.choice([f, "no-" + f, None]) for f in FAMS if f != "raise") if t] or None
        n = r.randint(2, 5)
        bad = sorted(r.sample(range(1, n + 1), r.choice([1, 1, 2])))
        cases.append({"policy": pol, "tokens": toks, "kind": r.choice(IMPORTABLE), "n": n, "bad": bad,
                      "method": r.choice(["collect_paths", "collect_paths", "fast_forward_paths", "collect_by_line"])})
    return cases
