"""Suite `print` (C16): print strings built from chunks, real PrintParser/print() vs the Lean model
(Model/Print.lean) and vs what the property demands (text verbatim, references replaced).

Two kinds of case:
  * unit — PrintParser.transform + print's trailing-blank rule against arbitrary data installed on a
    real CsvPath (many value types, ragged lines, malformed strings);
  * run  — whole csvpaths with print / print.onmatch / print.once among assignments; the data at each
    execution is snapshotted from the real run, the expected data is computed from the file.
"""
import copy
import string

import driver
from core import rng

TYPES = ["variables", "headers", "metadata", "csvpath"]
EXCL = set(".$!^:,;%()-+@#{}[]&<>/|?\"'")
PUNCT = [c for c in string.punctuation if c not in '$"']
TERMINATORS = [c for c in PUNCT if c in EXCL and c != "."] + [" ", " ", " "]
LETTERS = list("abcxyzABC019")
HEADERS = ["a", "b", "c", "n", "the name", "x_y"]
FIELDS = ["count_lines", "line_number", "count_scans", "identity", "valid", "stopped", "delimiter", "quotechar", "count_matches"]


class OutOfClass(Exception):
    pass


# ---------------------------------------------------------------- chunks, source, class

def lit(s):
    return {"lit": s}


def ref(t, name, quoted=False, tracking=None, tquoted=False):
    d = {"type": t, "name": {"s": name, "quoted": quoted}}
    if tracking is not None:
        d["tracking"] = {"s": tracking, "quoted": tquoted}
    return d


def write_name(n):
    return "'" + n["s"] + "'" if n["quoted"] else n["s"]


def write_ref(c):
    s = "$." + c["type"] + "." + write_name(c["name"])
    if "tracking" in c:
        s += "." + write_name(c["tracking"])
    return s


def source(chunks):
    out, after = "", False
    for c in chunks:
        if "lit" in c:
            s = c["lit"]
            out += ("." + s) if (after and s.startswith(".")) else s
            after = False
        else:
            out += write_ref(c)
            after = True
    return out


def is_space(ch):
    return ch.isspace()


def is_simple(ch):
    return ch not in EXCL and not is_space(ch)


def plain(ch):
    return ch != "$" and (not is_space(ch) or ch in " \t\f\r\n")


def wf_name(n):
    s = n["s"]
    if n["quoted"]:
        return s != "" and "'" not in s
    return s != "" and all(is_simple(ch) for ch in s)


def wf(chunks):
    for i, c in enumerate(chunks):
        if "lit" in c:
            if c["lit"] == "" or not all(plain(ch) for ch in c["lit"]):
                return False
        else:
            if not wf_name(c["name"]) or ("tracking" in c and not wf_name(c["tracking"])):
                return False
            if i + 1 < len(chunks):
                nxt = chunks[i + 1]
                if "lit" not in nxt:
                    return False
                last = c.get("tracking", c["name"])
                if nxt["lit"] and not last["quoted"] and is_simple(nxt["lit"][0]):
                    return False
    return True


def adjacent_refs(chunks):
    return any("lit" not in a and "lit" not in b for a, b in zip(chunks, chunks[1:]))


_NAME = r"'[^']+'|[^.$\s!^:,;%()\-+@#{}\[\]&<>/|?\"']+"
_REF = None


def parse_template(s):
    """the chunks of a print string that lies in the theorem's class (inverse of `source`); OutOfClass otherwise"""
    global _REF
    import re

    if _REF is None:
        _REF = re.compile(r"\$\.(variables|headers|metadata|csvpath)\.(" + _NAME + r")(?:\.(" + _NAME + r"))?")
    chunks, lit_, i = [], "", 0

    def unq(x):
        return (x[1:-1], True) if x.startswith("'") else (x, False)

    while i < len(s):
        if s[i] != "$":
            lit_ += s[i]
            i += 1
            continue
        m = _REF.match(s, i)
        if not m:
            raise OutOfClass("a `$` that does not start a local reference")
        if lit_:
            chunks.append(lit(lit_))
            lit_ = ""
        nm, nq = unq(m.group(2))
        if m.group(3) is not None:
            tr, tq = unq(m.group(3))
            chunks.append(ref(m.group(1), nm, nq, tr, tq))
        else:
            chunks.append(ref(m.group(1), nm, nq))
        i = m.end()
        if s[i:i + 2] == "..":
            lit_ = "."
            i += 2
        elif s[i:i + 1] == ".":
            raise OutOfClass("a single dot after a reference")
    if lit_:
        chunks.append(lit(lit_))
    if not wf(chunks) or source(chunks) != s:
        raise OutOfClass("print string outside the class of C16's theorem")
    return chunks


# ---------------------------------------------------------------- generators

def gen_text(r, first_terminator=False, n=None):
    n = n if n is not None else r.choice([1, 1, 2, 3, 5, 9])
    out = []
    for k in range(n):
        if k == 0 and first_terminator:
            out.append(r.choice(TERMINATORS + ["."]))
        else:
            x = r.random()
            out.append(r.choice(LETTERS) if x < 0.45 else " " if x < 0.6 else r.choice(PUNCT))
    return "".join(out)


def gen_ref(r, names):
    """names: dict type -> list of (name, trackings)"""
    t = r.choice(TYPES)
    name, trackings = r.choice(names[t])
    quoted = (not all(is_simple(ch) for ch in name)) or r.random() < 0.15
    tracking = None
    tq = False
    if trackings and r.random() < 0.7:
        tracking = r.choice(trackings)
        tq = not all(is_simple(ch) for ch in tracking)
    return ref(t, name, quoted, tracking, tq)


def gen_chunks(r, names, allow_adjacent=True):
    n = r.choice([1, 2, 2, 3, 3, 4, 5, 6])
    chunks = []
    prev_ref = False
    for _ in range(n):
        if r.random() < 0.6:
            if prev_ref and not (allow_adjacent and r.random() < 0.08):
                last = chunks[-1].get("tracking", chunks[-1]["name"])
                sep = gen_text(r, first_terminator=not last["quoted"] or r.random() < 0.7, n=r.choice([1, 1, 1, 2, 4]))
                chunks.append(lit(sep))
            chunks.append(gen_ref(r, names))
            prev_ref = True
        else:
            if prev_ref:
                last = chunks[-1].get("tracking", chunks[-1]["name"])
                chunks.append(lit(gen_text(r, first_terminator=not last["quoted"] or r.random() < 0.7)))
            elif chunks and "lit" in chunks[-1]:
                chunks[-1] = lit(chunks[-1]["lit"] + gen_text(r))
            else:
                chunks.append(lit(gen_text(r)))
            prev_ref = False
    return chunks


def gen_value(r, depth=0):
    x = r.random()
    if x < 0.3:
        return r.choice(["", "v", "two words", " padded ", "10", "x,y", "q'uote", "dot.ted"])
    if x < 0.5:
        return r.choice([0, 1, -3, 42, 1000000])
    if x < 0.58:
        return float(r.choice([0, 2, -5, 1000]))
    if x < 0.64:
        return None
    if x < 0.7:
        return r.choice([True, False])
    if depth == 0 and x < 0.85:
        return [gen_value(r, 1) for _ in range(r.randint(0, 4))]
    if depth == 0:
        return {k: gen_value(r, 1) for k in r.sample(["k", "k2", "the key", "0", "length"], r.randint(0, 3))}
    return r.choice(["s", 7])


def value_json(v):
    if isinstance(v, bool) or v is None or isinstance(v, (int, str)):
        return v
    if isinstance(v, float):
        if v == int(v) and abs(v) < 2 ** 53:
            return {"f": int(v)}
        raise ValueError("non-integral float")
    if isinstance(v, (list, tuple)):
        return [value_json(x) for x in v]
    if isinstance(v, dict):
        return {"d": [[value_json(k), value_json(x)] for k, x in v.items()]}
    raise ValueError(type(v).__name__)


def gen_unit(seed, i):
    r = rng(seed, "print-unit", i)
    headers = r.sample(HEADERS, r.randint(1, 5))
    if r.random() < 0.2:
        # header names that are numbers and not their own position (year columns, columns numbered from 1, in reverse):
        # a reference by such a name reads the column of that name, not the column at that index
        headers = r.choice([["region", "2023", "2024"], ["1", "2", "3"], ["2", "1", "0"], ["a", "0", "1"], ["3", "b"]])
    line = [r.choice(["", "x1", "two words", "7", " t "]) for _ in range(r.choice([len(headers), len(headers), max(0, len(headers) - 1), len(headers) + 1]))]
    variables = {nm: gen_value(r) for nm in r.sample(["x", "v", "s", "the var", "n"], r.randint(1, 4))}
    metadata = {nm: r.choice(["m1", "some words", ""]) for nm in r.sample(["id", "name", "note"], r.randint(1, 3))}
    names = {
        "variables": [(nm, (list(map(str, v.keys())) + ["nokey"]) if isinstance(v, dict) else (["0", "1", "7", "length", "x"] if isinstance(v, list) else ["k"]))
                      for nm, v in variables.items()] + [("missing", [])],
        "headers": [(h, []) for h in headers] + [(str(k), []) for k in range(0, len(headers) + 2)] + [("nohdr", ["t"])],
        "metadata": [(k, []) for k in metadata] + [("nometa", [])],
        "csvpath": [(f, []) for f in FIELDS],
    }
    kind = r.random()
    if kind < 0.85:
        chunks = gen_chunks(r, names)
        tpl = source(chunks)
    else:
        # malformed or off-grammar strings: compared with the model only
        chunks = None
        base = source(gen_chunks(r, names))
        tpl = r.choice([base + "$", "$" + base, base + " $.headers", base + "$.headers.a.", base.replace(".", "..", 1), base + " $5", "$.variables." + base,
                        base + "$.nothing.x ", base + "\x0b", "$.headers.a.b.c " + base, "$.headers.'a " + base, base + " $.variables.'' "])
    return {"kind": "unit", "headers": headers, "line": line, "variables": variables, "metadata": metadata, "chunks": chunks, "tpl": tpl}


# ---------------------------------------------------------------- reference semantics (Python side)

def spec_value(c, env):
    """the value the reference stands for, where the documentation settles it"""
    t, name = c["type"], c["name"]["s"]
    tr = c.get("tracking", {}).get("s") if "tracking" in c else None
    if "tracking" in c and c["tracking"]["quoted"]:
        raise OutOfClass("quoted tracking name (the quotes are kept as part of the key)")
    if c["name"]["quoted"] and "." in name:
        raise OutOfClass("quoted name with a dot")
    if t == "variables":
        if name not in env["variables"]:
            raise OutOfClass("unknown variable")
        v = env["variables"][name]
        if tr is None:
            return str(v)
        if isinstance(v, dict):
            if tr not in v or v[tr] is None:
                raise OutOfClass("missing tracking key")
            return str(v[tr])
        if isinstance(v, list):
            if tr == "length":
                return str(len(v))
            if tr.isascii() and tr.isdigit() and int(tr) < len(v) and v[int(tr)] is not None:
                return str(v[int(tr)])
            raise OutOfClass("index outside the stack")
        raise OutOfClass("tracking value on a scalar")
    if t == "headers":
        if tr is not None:
            raise OutOfClass("tracking value on a header")
        hs = env["headers"]
        if name in hs:
            i = hs.index(name)
        elif name.isascii() and name.isdigit():
            i = int(name)
        else:
            raise OutOfClass("unknown header")
        if i >= len(env["line"]):
            raise OutOfClass("header beyond the line")
        return str(env["line"][i])
    if t == "metadata":
        if tr is not None or name not in env["metadata"]:
            raise OutOfClass("metadata miss")
        return str(env["metadata"][name])
    if t == "csvpath":
        if tr is not None or name not in env["fields"] or name == "count_matches":
            raise OutOfClass("runtime field outside the documented set")
        return str(env["fields"][name])
    raise OutOfClass(t)


def spec_expected(chunks, env):
    out = ""
    for c in chunks:
        out += c["lit"] if "lit" in c else spec_value(c, env)
    return out


# ---------------------------------------------------------------- real side

def snapshot(csvpath):
    lm = csvpath.line_monitor
    fields = {
        "count_lines": lm.physical_line_count if lm else None,
        "line_number": lm.physical_line_number if lm else None,
        "count_scans": csvpath.scan_count,
        "count_matches": csvpath.match_count,
        "identity": csvpath.identity,
        "valid": csvpath.is_valid,
        "stopped": csvpath.stopped,
        "delimiter": csvpath.delimiter,
        "quotechar": csvpath.quotechar,
    }
    line = None
    if csvpath.matcher is not None:
        line = list(csvpath.matcher.line) if csvpath.matcher.line is not None else None
    return {"variables": copy.deepcopy(csvpath.variables), "headers": list(csvpath.headers or []), "line": line,
            "metadata": copy.deepcopy(csvpath.metadata or {}), "fields": fields}


def model_print(tpl, env):
    try:
        req = {"op": "print", "tpl": tpl, "vars": value_json(env["variables"]), "headers": env["headers"], "line": env["line"] or [],
               "metadata": value_json(env["metadata"]), "fields": value_json(env["fields"])}
    except ValueError as e:
        return {"unmodelled": f"value outside the model: {e}"}
    if not all(isinstance(x, str) for x in req["headers"]) or not all(isinstance(x, str) for x in req["line"]):
        return {"unmodelled": "non-text cell"}
    return driver.ask(req)


def judge(res, chunks, tpl, env, got, where):
    """got: the string print sent (None if it raised). Fills res['oracle'] / res['disagree']."""
    m = model_print(tpl, env)
    res.setdefault("model_outcomes", {})
    key = "unmodelled" if "unmodelled" in m else "error" if m.get("error") else "printed"
    res["model_outcomes"][key] = res["model_outcomes"].get(key, 0) + 1
    if "unmodelled" not in m:
        mv = None if m.get("error") else m.get("printed")
        if mv != got:
            res["disagree"].append({"what": "print: output of the model and of the code differ", "where": where, "tpl": tpl, "real": got, "model": mv})
    if chunks is None:
        return
    s = driver.ask({"op": "printspec", "chunks": chunks, "values": []})
    if s["source"] != tpl:
        res["disagree"].append({"what": "printspec: Lean `source` differs from the harness's", "lean": s["source"], "py": tpl})
    if s["wf"] != wf(chunks):
        res["disagree"].append({"what": "printspec: Lean `wfB` differs from the harness's", "lean": s["wf"], "py": wf(chunks), "tpl": tpl})
    if not wf(chunks):
        if adjacent_refs(chunks):
            # outside the theorem's class but inside the property's quantifier ("adjacent")
            try:
                want = spec_expected(chunks, env)
            except OutOfClass:
                return
            if got != want:
                res["oracle"].append({"what": "print: text is not verbatim with references replaced (adjacent references)", "where": where, "tpl": tpl,
                                      "got": got, "want": want, "trigger": "adjacent-references"})
        return
    res["in_class"] = res.get("in_class", 0) + 1
    try:
        want = spec_expected(chunks, env)
    except OutOfClass as e:
        res.setdefault("out_of_class", {})
        res["out_of_class"][str(e)] = res["out_of_class"].get(str(e), 0) + 1
        return
    res["judged"] = res.get("judged", 0) + 1
    if got != want:
        res["oracle"].append({"what": "print: text is not verbatim with references replaced", "where": where, "tpl": tpl, "got": got, "want": want})


def case_unit(case):
    import real_run
    from types import SimpleNamespace
    from csvpath.matching.util.print_parser import PrintParser

    res = {"case": case, "disagree": [], "oracle": [], "nontrivial": False}
    path = real_run.write_file("pu.csv", [case["headers"], case["line"]])
    p, _rp = real_run.make_path(f"${path}[*][yes()]")
    p.parse(f"~ id: unit ~ ${path}[*][yes()]")
    p.headers = list(case["headers"])
    p.variables = copy.deepcopy(case["variables"])
    md = dict(p.metadata or {})
    md.update(case["metadata"])
    p.metadata = md
    p.matcher = SimpleNamespace(line=list(case["line"]))
    env = snapshot(p)
    tpl = case["tpl"]
    try:
        v = PrintParser(csvpath=p).transform(tpl)
        if v[len(v) - 1] == " ":
            v = v[0:len(v) - 1]
        got = v
    except Exception:  # noqa: BLE001
        got = None
    judge(res, case["chunks"], tpl, env, got, "unit")
    res["nontrivial"] = bool(case["chunks"]) and sum(1 for c in case["chunks"] if "lit" not in c) >= 2
    res["nrefs"] = sum(1 for c in case["chunks"] if "lit" not in c) if case["chunks"] else -1
    return res


# ---- whole runs

def gen_run(seed, i):
    r = rng(seed, "print-run", i)
    headers = ["a", "b", "c", "the name"]
    nrec = r.randint(2, 7)
    recs = [headers]
    for k in range(nrec):
        if r.random() < 0.1 and k < nrec - 1:      # interior blank records only (a trailing one re-runs the matcher frozen)
            recs.append([])
            continue
        recs.append([f"a{k}", r.choice(["", "y", f"b {k}"]), r.choice(["", "", "1", "z"]), r.choice(["nm", "two words", ""])])
    assigns = r.sample(['@x = #a', '@v.k = #b', 'push("s", #a)', '@n = #c', '@v.k2 = #a'], r.randint(1, 4))
    names = {
        "variables": [("x", []), ("v", ["k", "k2"]), ("s", ["0", "length", "1"]), ("n", [])],
        "headers": [(h, []) for h in headers] + [("0", []), ("2", [])],
        "metadata": [("id", []), ("note", [])],
        "csvpath": [(f, []) for f in FIELDS],
    }
    chunks = gen_chunks(r, names)
    qual = r.choice(["", "", "onmatch", "once"])
    target = r.choice([None, None, None, "report"])      # print's second argument: a named printout stream
    guard = r.choice(["", "", "#c", "#b"])
    comps = assigns[:]
    if qual == "onmatch":
        # onmatch looks ahead: the other components of the line run before the print decides, so "the value current at
        # that point" is only settled when print comes last
        if guard:
            comps.insert(r.randint(0, len(comps)), guard)
        comps.append("PRINT")
    else:
        comps.insert(r.randint(0, len(comps)), "PRINT")
        if guard:
            comps.insert(r.randint(0, len(comps)), guard)
    scan = r.choice(["*", "*", "1*", "0-2", "1+3", "2*"])
    return {"kind": "run", "recs": recs, "chunks": chunks, "tpl": source(chunks), "qual": qual, "guard": guard, "comps": comps, "scan": scan,
            "target": target}


def expected_runs(case, scanned):
    """S for the run: the state at each execution of print, from the file alone.
    Returns list of (line index, env) for the executions the property demands."""
    recs = case["recs"]
    headers = recs[0]
    variables = {}
    out = []
    printed_once = False
    for n, i in enumerate(scanned):
        rec = recs[i]

        def cell(h):
            j = headers.index(h)
            return rec[j] if j < len(rec) else None

        matches = True
        if case["guard"]:
            g = cell(case["guard"][1:])
            matches = g is not None and g.strip() != ""
        for comp in case["comps"]:
            if comp == "PRINT":
                fire = True
                if case["qual"] == "onmatch":
                    fire = matches
                if case["qual"] == "once":
                    fire = not printed_once
                if fire:
                    printed_once = True
                    env = {"variables": copy.deepcopy(variables), "headers": headers, "line": rec, "metadata": {"id": "pr", "note": "a note"},
                           "fields": {"count_lines": i + 1, "line_number": i, "count_scans": n + 1, "identity": "pr", "valid": True, "stopped": False,
                                      "delimiter": ",", "quotechar": '"'}}
                    out.append((i, env))
            elif comp.startswith("@v."):
                key, h = comp[3:].split(" = #")
                val = cell(h)
                variables.setdefault("v", {})[key] = val
            elif comp.startswith("@"):
                nm, h = comp[1:].split(" = #")
                variables[nm] = cell(h)
            elif comp.startswith("push"):
                variables.setdefault("s", []).append(cell("a"))
    return out


def case_run(case):
    import real_run
    from csvpath.matching.util.print_parser import PrintParser

    res = {"case": case, "disagree": [], "oracle": [], "nontrivial": False}
    path = real_run.write_file("pr.csv", case["recs"])
    q = ("." + case["qual"]) if case["qual"] else ""
    tgt = f', "{case["target"]}"' if case.get("target") else ""
    comps = [c if c != "PRINT" else f'print{q}("{case["tpl"]}"{tgt})' for c in case["comps"]]
    text = f"~ id: pr note: a note ~ ${path}[{case['scan']}][ " + "\n ".join(comps) + " ]"
    calls = []
    orig = PrintParser.transform

    def rec_transform(self, printstr):
        env = snapshot(self.csvpath)
        try:
            v = orig(self, printstr)
        except Exception:
            calls.append((env, None))
            raise
        calls.append((env, v))
        return v

    PrintParser.transform = rec_transform
    try:
        out, p = real_run.run_single(text, "collect", policy=["collect"])
    finally:
        PrintParser.transform = orig
    res["text"] = text
    if "parse_error" in out:
        res["parse_error"] = out["parse_error"]
        if wf(case["chunks"]):
            res["oracle"].append({"what": "print: a csvpath with a well-formed print string does not parse", "text": text, "error": out["parse_error"]})
        return res
    printed = [x[1] for x in (out.get("printouts") or [])]
    streams = sorted(set(str(x[0]) for x in (out.get("printouts") or [])))
    if streams and streams != [str(case.get("target"))]:
        res["oracle"].append({"what": "print: entries went to another printout stream than the one named", "text": text, "streams": streams,
                              "want": case.get("target")})
    # model vs code: every execution, with the data the run held at that moment
    ok_calls = [c for c in calls if c[1] is not None]
    if len(ok_calls) != len(printed) and not out.get("errors"):
        res["disagree"].append({"what": "print: number of printouts differs from the number of successful transforms", "printouts": printed, "calls": len(ok_calls)})
    k = 0
    for env, v in calls:
        got = None
        if v is not None and k < len(printed):
            got = printed[k]
            k += 1
        judge_env = dict(env)
        judge(res, None, case["tpl"], judge_env, got, f"line {env['fields']['line_number']}")
    # the property: one entry per demanded execution, with the demanded text
    if not wf(case["chunks"]) and not adjacent_refs(case["chunks"]):
        return res
    if out.get("errors") or out.get("raised"):
        if wf(case["chunks"]):
            res["oracle"].append({"what": "print: a well-formed print string raised", "text": text, "errors": out.get("errors"), "raised": out.get("raised")})
        return res
    import spec_eval

    pred, _last = spec_eval.scan_den(case["scan"])
    scanned = [i for i in range(len(case["recs"])) if pred(i) and case["recs"][i]]
    want_runs = expected_runs(case, scanned)
    try:
        want = [spec_expected(case["chunks"], env) for _i, env in want_runs]
    except OutOfClass as e:
        res.setdefault("out_of_class", {})
        res["out_of_class"][str(e)] = 1
        # the number of entries is still demanded
        if len(printed) != len(want_runs):
            res["oracle"].append({"what": "print: number of entries differs from the number of demanded executions", "text": text,
                                  "got": printed, "want_count": len(want_runs), "trigger": "adjacent-references" if adjacent_refs(case["chunks"]) else None})
        return res
    res["judged"] = res.get("judged", 0) + 1
    res["nontrivial"] = 0 < len(want) < len(scanned) or (len(want) >= 2 and len(set(want)) >= 2)
    if printed != want:
        res["oracle"].append({"what": "print: entries differ from the text with references replaced by the values current at that point", "text": text,
                              "got": printed, "want": want, "trigger": "adjacent-references" if adjacent_refs(case["chunks"]) else None})
    return res


def case_any(case):
    return case_unit(case) if case["kind"] == "unit" else case_run(case)
