"""Group-level validity (C04): results_manager.is_valid(name) and the run manifest's all_valid are
the conjunction of the members' verdicts."""
import json
import os

from core import rng


def case_group_validity(case):
    import real_group as RG
    import realenv

    r = rng(case["seed"], "validity", case["i"])
    realenv.reset_dirs()
    n = r.randint(1, 3)
    recs = [["a", "n"]] + [[r.choice(["p", "q", "x"]), str(r.randint(0, 5))] for _ in range(r.randint(1, 5))]
    members = []
    kinds = []
    for j in range(n):
        k = r.choice(["ok", "fail_cond", "fail_always", "error", "norun", "stop", "fail_all", "escape"])
        kinds.append(k)
        members.append({"ok": "$[*][yes()]", "fail_cond": "$[1*][#n == 3 -> fail()]", "fail_always": "$[1*][fail()]",
                        "error": "$[1*][add(#a, 1)]", "norun": "~ run-mode: no-run ~ $[*][yes()]", "stop": "$[*][stop(#n == 2)]",
                        "fail_all": "$[1*][#n == 4 -> fail_all()]",
                        # an error that leaves the csvpath itself (collect() names a column the file does not have): the CsvPaths handles
                        # it — under the member's error policy (ErrorCommsManager takes the csvpath's policy when it is given the csvpath)
                        "escape": "$[*][yes() collect(7)]"}[k])
    pol = r.choice([["collect"], ["collect", "fail"], ["fail"]])
    gpol = r.choice([["collect"], ["collect"], ["collect", "fail"], ["fail"]])
    method = r.choice(RG.METHODS)
    cp = RG.new_csvpaths(policy=gpol, csvpath_policy=pol)
    RG.setup_group(cp, "grp", members, "food", recs)
    caller, mobs, raised = RG.run_group(cp, "grp", "food", method)
    res = {"case": {"members": members, "kinds": kinds, "policy": pol, "group_policy": gpol, "method": method, "recs": recs}, "oracle": [],
           "nontrivial": len(set(kinds)) > 1}
    if raised:
        res["oracle"].append({"what": f"group run raised {raised}"})
        return res
    if "escape" in kinds and method.endswith("by_line"):
        # an error outside the match components ends a breadth-first run for every member (C18's abort cases judge what is left);
        # members that never tracked a line are the known finding result-valid-needs-start
        res["nontrivial"] = False
        return res
    verdicts = [m["valid"] for m in mobs]
    # each member's own verdict: False exactly when it failed the file
    # fail_all(): the caller itself fails when it executes it
    first4 = next((i for i, rec in enumerate(recs) if i >= 1 and rec[1] == "4"), None)
    callers = [j for j, k in enumerate(kinds) if k == "fail_all"] if first4 is not None else []
    by_line = method.endswith("by_line")
    for j, k in enumerate(kinds):
        has3 = any(rec[1] == "3" for rec in recs[1:])
        want = {"ok": True, "fail_cond": not has3, "fail_always": False, "error": not ("fail" in pol), "norun": True, "stop": True,
                "fail_all": first4 is None, "escape": not ("fail" in pol)}[k]   # (handled under the csvpath's own policy)
        if k == "escape" and by_line:
            continue        # (how a breadth-first run treats an error outside the match components is judged by C18's abort cases)
        if k == "error" and all(rec[0].isdigit() for rec in recs[1:]):
            want = True
        if callers and j not in callers:
            # what fail_all() does to the *other* csvpaths of the run is not settled by the documentation (as built: next_paths
            # fails the members that follow, the breadth-first methods fail everyone from then on, collect_paths and
            # fast_forward_paths fail nobody else): only the caller's own verdict and the aggregation below are judged
            continue
        if verdicts[j] != want:
            res["oracle"].append({"what": "a member's verdict is not False exactly when it failed the file", "member": members[j],
                                  "got": verdicts[j], "want": want})
    conj = all(verdicts)
    rm = cp.results_manager.is_valid("grp")
    with open(os.path.join(mobs[0]["run_dir"], "manifest.json")) as f:
        man = json.load(f)
    if man.get("all_valid") != conj:
        res["oracle"].append({"what": "run manifest all_valid is not the conjunction of the members' verdicts", "got": man.get("all_valid"), "want": conj})
    if rm != conj:
        # known finding: Result.is_valid consults run_started_at, so a member that never tracked a line counts as invalid
        never_started = any(k == "norun" for k in kinds) or (method.endswith("by_line") and False)
        res["oracle"].append({"what": "results_manager.is_valid(name) is not the conjunction of the members' verdicts",
                              "got": rm, "want": conj, "finding": "result-valid-needs-start" if never_started else None})
    return res
