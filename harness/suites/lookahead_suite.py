"""Suite `lookahead` (C13): stop()/skip() in a csvpath that also has a component with the onmatch look-ahead.

An onmatch-qualified component (push.onmatch, print.onmatch, `@x.onmatch = …`, counter.onmatch) asks `line_matches()`, which
evaluates the *other* components of the line early, from inside the component.  Whatever that does to the order of
evaluation, C13's stop and skip clauses are stated on what the user sees and are judged here directly, without the
interpreter model (which has no look-ahead):

  stop   once stop() has fired on line L nothing belonging to a later line happens: no later line is returned, the marker
         stacks hold no later line number, scan_count does not run on;
  skip   the line skip() fires on is not returned, and every other scanned line is handled normally (returned iff its
         conditions hold, its markers pushed)."""
from core import rng


def gen_case(seed, i):
    r = rng(seed, "lookahead", i)
    n = r.randint(3, 8)
    recs = [["name", "k", "t"]]
    for j in range(1, n + 1):
        recs.append([f"r{j}", str(j), r.choice(["x", "x", "y"])])
    if r.random() < 0.25:
        recs.append([])
    fire = r.randint(1, n)
    om = r.choice(['push.onmatch("seen", line_number())', 'print.onmatch("m $.csvpath.line_number")', "@hit.onmatch = #1",
                   "counter.onmatch.cm(1)", '@c = count()'])
    kind = r.choice(["stop", "skip"])
    ctl = f'{kind}(in(#1, "{fire}"))' if r.random() < 0.7 else f"#1 == {fire} -> {kind}()"
    cond = r.choice([None, None, '#t == "x"', "above(#1, 0)"])
    marker = 'push("all", line_number())'
    before = r.random() < 0.7       # the onmatch component stands before the control function
    comps = [om, ctl] if before else [ctl, om]
    if cond:
        comps.insert(r.randint(0, len(comps)), cond)
    if r.random() < 0.5:
        comps.insert(r.randint(0, len(comps)), marker)
    return {"recs": recs, "match": " ".join(comps), "kind": kind, "fire": fire, "cond": cond, "om_first": before,
            "method": r.choice(["collect", "next", "ff"])}


def case(c):
    import real_run

    path = real_run.write_file("la.csv", c["recs"])
    text = f"${path}[1*][{c['match']}]"
    out, p = real_run.run_single(text, c["method"], policy=["collect", "print"])
    res = {"case": c, "oracle": [], "disagree": [], "text": text}
    if "parse_error" in out or out.get("raised"):
        res["skipped"] = out.get("parse_error") or out.get("raised")
        return res
    recs = c["recs"]
    fire = c["fire"]
    data = [i for i, rec in enumerate(recs) if rec and i >= 1]
    lines = out["lines"] or []
    returned, at = [], 0
    for l in lines:
        while at < len(recs) and [str(x) for x in recs[at]] != [str(x) for x in l]:
            at += 1
        returned.append(at)
        at += 1
    holds = lambda i: c["cond"] is None or (c["cond"].startswith("#t") and recs[i][2] == "x") or c["cond"].startswith("above")  # noqa: E731
    marks = []
    for k, v in (out["variables"] or {}).items():
        if k in ("seen", "all") and isinstance(v, list):
            marks += [x for x in v if isinstance(x, int)]
    if c["kind"] == "stop":
        late = [i for i in returned if i > fire]
        if c["method"] != "ff" and late:
            res["oracle"].append({"what": "stop(): a line after the one stop() fired on was returned", "returned": returned, "fire": fire})
        if any(x > fire for x in marks):
            res["oracle"].append({"what": "stop(): a component ran on a line after the one stop() fired on", "marks": marks, "fire": fire})
        if out["scan_count"] > len([i for i in data if i <= fire]):
            res["oracle"].append({"what": "stop(): lines after the one stop() fired on were scanned", "scan_count": out["scan_count"], "fire": fire})
        if not out["flags"].get("stopped"):
            res["oracle"].append({"what": "stop(): the run is not stopped", "fire": fire})
    else:
        if c["method"] != "ff":
            if fire in returned:
                res["oracle"].append({"what": "skip(): the line skip() fired on was returned", "returned": returned, "fire": fire})
            # `cond -> skip()` holds only where cond does (the skipped line); `skip(cond)` holds everywhere
            want = [] if "->" in c["match"] else [i for i in data if i != fire and holds(i)]
            if returned != want:
                res["oracle"].append({"what": "skip(): the lines other than the skipped one are not handled normally",
                                      "returned": returned, "want": want, "fire": fire})
        if out["scan_count"] != len(data):
            res["oracle"].append({"what": "skip(): scan_count", "scan_count": out["scan_count"], "want": len(data)})
    res["nontrivial"] = fire < max(data)
    return res
