"""Suite `chain` (C20): source-mode preceding, variable/header references, results references."""
import csv
import io
import json
import os

import driver
from core import rng

FILTERS = ['#1 == "x"', '#1 == "y"', 'not(#1 == "x")', 'above(#2, 2)', 'below(#2, 7)', '#0', 'exists(#3)', 'in(#1, "x|y")',
           'starts_with(#0, "a")', 'yes()', 'not(#3 == "q")', 'equals(#2, 4)']


def gen_recs(r):
    n = r.randint(2, 9)
    recs = [["a", "b", "n", "c"]]
    for i in range(1, n):
        recs.append([r.choice(["aa", "ab", "ba", ""]), r.choice(["x", "y", "z"]), str(r.choice([1, 2, 3, 4, 5, 8])), r.choice(["q", "w", ""])])
    return recs


def gen_case_chain(seed, i):
    r = rng(seed, "chain", i)
    n = r.randint(2, 4)
    first_pre = r.randint(1, n - 1)
    stages = []
    for j in range(n):
        k = r.randint(1, 2)
        stages.append({"match": " ".join(r.sample(FILTERS, k)), "preceding": j >= first_pre, "ident": f"s{j}" if r.random() < 0.7 else None})
    case = {"recs": gen_recs(r), "stages": stages}
    if i % 4 == 3:
        # the file and the CsvPaths in another dialect; a few cells hold the characters that need quoting in one dialect or the other
        case["delim"] = r.choice([";", "|", "\t", ","])
        case["quote"] = r.choice(["'", '"'])
        for row in case["recs"][1:]:
            if r.random() < 0.3:
                row[3] = r.choice(["q,w", "q;w", 'say "q"', "it's", "q|w"])
    return case


def stage_text(s, path=""):
    parts = []
    if s["ident"]:
        parts.append(f"id: {s['ident']}")
    if s["preceding"]:
        parts.append("source-mode: preceding")
    c = ("~ " + " ".join(parts) + " ~ ") if parts else ""
    return f"{c}${path}[*][{s['match']}]"


def case_chain(case):
    import real_group as RG
    import real_run
    import realenv

    realenv.reset_dirs()
    res = {"case": case, "disagree": [], "oracle": [], "nontrivial": False}
    delim, quote = case.get("delim", ","), case.get("quote", '"')
    cp = RG.new_csvpaths(policy=["raise", "collect"], csvpath_policy=["collect"], delimiter=delim, quotechar=quote)
    RG.setup_group(cp, "chain", [stage_text(s) for s in case["stages"]], "food", case["recs"], delimiter=delim, quotechar=quote)
    origin_path = cp.file_manager.get_named_file("food")
    caller, mobs, raised = RG.run_group(cp, "chain", "food", "collect_paths")
    stages = case["stages"]
    # expected, stage by stage, from standalone runs
    prev = None
    expected = []
    zero_pred = False
    for j, s in enumerate(stages):
        inp = prev if (s["preceding"] and j > 0 and prev is not None) else case["recs"]
        if s["preceding"] and j > 0 and not prev:
            # the predecessor collected nothing: this member reads an empty input and collects nothing
            zero_pred = True
            expected.append(([], []))
            prev = []
            continue
        path = real_run.write_file(f"stage{j}.csv", inp, delimiter=delim, quotechar=quote)
        out, _ = real_run.run_single(f"${path}[*][{s['match']}]", "collect", policy=["collect"], delimiter=delim, quotechar=quote)
        if "parse_error" in out or out.get("raised"):
            res["unmodelled"] = out.get("parse_error") or out.get("raised")
            return res
        expected.append((inp, out["lines"]))
        prev = out["lines"]
    if zero_pred and raised and "FileNotFoundError" in str(raised):
        # known finding: the predecessor left no data.csv and the run raises (any other outcome at this
        # point - another exception, or a run that quietly reads some other file - is judged below)
        res["oracle"].append({"what": f"source-mode preceding after a member that collected nothing raises {raised}",
                              "finding": "preceding-after-empty"})
        return res
    if raised:
        res["oracle"].append({"what": f"collect_paths raised {raised}"})
        return res
    for j, s in enumerate(stages):
        mo = mobs[j]
        inp, want = expected[j]
        if mo["lines"] != want:
            res["oracle"].append({"what": "a member did not collect what its csvpath selects from the file it should read",
                                  "stage": j, "preceding": s["preceding"], "got": mo["lines"], "want": want})
        with open(os.path.join(mo["instance_dir"], "manifest.json")) as f:
            man = json.load(f)
        actual = man.get("actual_data_file")
        if s["preceding"] and j > 0:
            pred = mobs[j - 1]
            want_file = os.path.join(pred["instance_dir"], "data.csv")
            if actual != want_file:
                res["oracle"].append({"what": "manifest actual_data_file of a preceding member is not its predecessor's data.csv",
                                      "stage": j, "got": actual, "want": want_file})
            if man.get("source_mode_preceding") is not True:
                res["oracle"].append({"what": "manifest does not record source-mode preceding", "stage": j})
        else:
            if actual != origin_path:
                res["oracle"].append({"what": "a member without source-mode preceding did not read the named file", "stage": j,
                                      "got": actual, "want": origin_path})
    # model
    mm = driver.ask({"op": "chain", "recs": case["recs"], "stages": [
        {"scan": "*", "preceding": s["preceding"], "script": cp._verif_members[j]["script"]} for j, s in enumerate(stages)]})
    if "error" not in mm:
        for j in range(len(stages)):
            if mm["stages"][j]["lines"] != mobs[j]["lines"]:
                res["disagree"].append({"what": "chain: lines collected by a stage", "stage": j, "real": mobs[j]["lines"], "model": mm["stages"][j]["lines"]})
            if mm["stages"][j]["input"] != expected[j][0]:
                res["disagree"].append({"what": "chain: what a stage reads", "stage": j})
    res["nontrivial"] = len(set(json.dumps(e[1]) for e in expected)) > 1 and all(e[1] for e in expected)
    return res


# ---- references ----------------------------------------------------------------------------------
def gen_case_refs(seed, i):
    r = rng(seed, "refs", i)
    nruns = r.randint(1, 3)
    files = [gen_recs(r) for _ in range(nruns)]
    two = r.random() < 0.5
    return {"files": files, "two_members": two, "hdr": r.choice(["b", "n", "a"]), "probe": gen_recs(r)[:3],
            "empty_member": two and r.random() < 0.5, "rerun": gen_recs(r) if r.random() < 0.5 else None}


def case_refs(case):
    import real_group as RG
    import realenv

    import datetime as _dt

    import csvpath.csvpaths as cps_mod
    from history_suite import FakeDatetime

    realenv.reset_dirs()
    cps_mod.datetime = FakeDatetime
    clock = [_dt.datetime(2026, 9, 29, 23, 59, 57, tzinfo=_dt.timezone.utc)]

    def tick():
        clock[0] = clock[0] + _dt.timedelta(seconds=1)
        FakeDatetime.current = clock[0]

    res = {"case": case, "disagree": [], "oracle": [], "nontrivial": True}
    cp = RG.new_csvpaths(policy=["raise", "collect"], csvpath_policy=["raise", "collect"])
    # (zero, flag, blank: final values that are falsy but present)
    g = ['~ id: A ~ $[1*][@zero = subtract(#n, #n) @flag = no() @blank = "" #b == "x" @v = count_lines() @t.k = #a @t.j = #n tally(#n)]']
    if case["two_members"]:
        g.append('~ id: B ~ $[1*][@w = count() yes()]')
        if case.get("empty_member"):
            # a further member that collects nothing: references to the others must not notice
            g.append('~ id: C ~ $[1*][no()]')
    cp.paths_manager.add_named_paths(name="g", paths=g)
    last = None
    for k, recs in enumerate(case["files"]):
        src = os.path.join("data", f"in{k}.csv")
        realenv.write_csv(src, recs)
        cp.file_manager.add_named_file(name="infile", path=src)
        tick()
        caller, mobs, raised = RG.run_group(cp, "g", "infile", "collect_paths")
        if raised:
            res["oracle"].append({"what": f"run of the referenced group raised {raised}"})
            return res
        last = mobs
    A = last[0]
    hdr = case["hdr"]
    track = ".A" if case["two_members"] else ""
    # tracking values that come from the data: keys of all digits and keys that are words
    import re as _re
    tn = A["variables"].get("tally_n") if isinstance(A["variables"].get("tally_n"), dict) else {}
    dkey = next((k_ for k_ in tn if _re.fullmatch(r"[0-9]+", str(k_))), None)
    wkey = next((k_ for k_ in tn if _re.fullmatch(r"[a-z][a-z0-9_]*", str(k_))), None)
    more = (f" @td = $g.variables.tally_n.{dkey}" if dkey is not None else "") + (f" @tw = $g.variables.tally_n.{wkey}" if wkey is not None else "")
    h = [f'$[1][@r = $g.variables.v{more} @q = $g.variables.t.k @z = $g.variables.t.nokey @r0 = $g.variables.zero @rf = $g.variables.flag '
         f'@rb = $g.variables.blank @hv = $g.headers.{hdr}{track}]']
    cp.paths_manager.add_named_paths(name="h", paths=h)
    src = os.path.join("data", "probe.csv")
    realenv.write_csv(src, case["probe"])
    cp.file_manager.add_named_file(name="probe", path=src)
    tick()
    caller, mobs, raised = RG.run_group(cp, "h", "probe", "collect_paths")
    if raised:
        if not A["lines"]:
            res["unmodelled"] = "referenced member collected no lines (header reference raises by design)"
            return res
        res["oracle"].append({"what": f"run with references raised {raised}", "errors": mobs[0]["errors"] if mobs else None})
        return res
    hv = mobs[0]["variables"]
    want_v = A["variables"].get("v")
    want_q = (A["variables"].get("t") or {}).get("k")
    idx = ["a", "b", "n", "c"].index(hdr)
    want_h = [l[idx].strip() for l in (A["lines"] or []) if len(l) > idx]
    got = {"r": hv.get("r"), "q": hv.get("q"), "z": hv.get("z"), "hv": hv.get("hv"), "r0": hv.get("r0"), "rf": hv.get("rf"), "rb": hv.get("rb")}
    want = {"r": want_v, "q": want_q, "z": None, "hv": want_h, "r0": A["variables"].get("zero"), "rf": A["variables"].get("flag"),
            "rb": A["variables"].get("blank")}
    if dkey is not None:
        got["td"], want["td"] = hv.get("td"), tn[dkey]
    if wkey is not None:
        got["tw"], want["tw"] = hv.get("tw"), tn[wkey]
    for key in want:
        if got[key] != want[key] and not (key == "hv" and list(got[key] or []) == want[key]):
            res["oracle"].append({"what": f"reference ${'g'}: {key} does not evaluate to the value the most recent run left",
                                  "got": got[key], "want": want[key], "runs": len(case["files"])})
    # results reference used as a file name replays the member's data.csv
    cp.paths_manager.add_named_paths(name="replay", paths=['~ id: R ~ $[*][yes()]'])
    # a chain run on the replayed file: the second member reads what the first collected, not the replayed file
    cp.paths_manager.add_named_paths(name="rechain", paths=['~ id: R1 ~ $[*][line_number() == 0]',
                                                            '~ id: R2 source-mode: preceding ~ $[*][yes()]'])
    if A["lines"]:
        tick()
        caller, mobs2, raised = RG.run_group(cp, "replay", "$g.results.2026-:last.A", "collect_paths")
        if raised:
            res["oracle"].append({"what": f"results reference as file name raised {raised}"})
        elif mobs2[0]["lines"] != A["lines"]:
            res["oracle"].append({"what": "results reference used as a file name does not replay the member's data.csv",
                                  "got": mobs2[0]["lines"], "want": A["lines"]})
        if not raised and len(A["lines"]) >= 2 and not res["oracle"]:
            tick()
            caller, mobs4, raised4 = RG.run_group(cp, "rechain", "$g.results.2026-:last.A", "collect_paths")
            if raised4:
                res["oracle"].append({"what": f"a source-mode: preceding chain on a results reference raised {raised4}"})
            elif len(mobs4) == 2 and (mobs4[0]["lines"] != A["lines"][:1] or mobs4[1]["lines"] != mobs4[0]["lines"]):
                res["oracle"].append({"what": "in a chain run on a results reference a source-mode: preceding member does not read its predecessor's lines",
                                      "first": mobs4[0]["lines"], "second": mobs4[1]["lines"], "replayed": A["lines"]})
        if res["oracle"]:
            pass
        elif case.get("rerun"):
            # the group gets a newer run of member A on changed data, addressed by a csvpaths reference (a partial re-run), on the
            # same instance; the very same reference string must then replay the newer run's data.csv
            import real_run

            src = os.path.join("data", "in_rerun.csv")
            realenv.write_csv(src, case["rerun"])
            cp.file_manager.add_named_file(name="infile", path=src)
            tick()
            _c, _m, raised = RG.run_group(cp, "$g.csvpaths.A:to", "infile", "collect_paths")
            lone, _ = real_run.run_single(g[0].replace("$[", f"${src}[", 1), "collect", policy=["raise", "collect"])
            if raised or lone.get("raised") or not lone.get("lines"):
                res.setdefault("notes", []).append(f"partial re-run not judged: {raised or lone.get('raised') or 'no lines'}")
            else:
                tick()
                caller, mobs3, raised = RG.run_group(cp, "replay", "$g.results.2026-:last.A", "collect_paths")
                if raised:
                    res["oracle"].append({"what": f"results reference as file name raised {raised} after a partial re-run of the group"})
                elif mobs3[0]["lines"] != lone["lines"]:
                    res["oracle"].append({"what": "results reference with :last does not replay the most recent run's data.csv after a partial re-run",
                                          "got": mobs3[0]["lines"], "want": lone["lines"]})
    return res
