"""Suites over whole runs of one CsvPath.  The real run loop is compared with the parametric Lean
run-loop model driven by the *recorded* matcher (see real_run.instrument), so the comparison holds
for any csvpath, and the property oracles are evaluated on the real observations."""
import json

import driver
import gen_paths as G
from core import rng


def canon_vars(v, _seen=None):
    """JSON-able copy of a variables dict; tuples become lists, cycles (a stack pushed onto
    itself) are cut with a marker"""
    _seen = _seen or []
    if any(v is s for s in _seen):
        return "<cycle>"
    if isinstance(v, dict):
        return {str(k): canon_vars(x, _seen + [v]) for k, x in sorted(v.items(), key=lambda kv: str(kv[0]))}
    if isinstance(v, (list, tuple)):
        return [canon_vars(x, _seen + [v]) for x in v]
    if isinstance(v, (str, int, float, bool)) or v is None:
        return v
    return str(v)


def has_cycle(variables):
    """a variable that contains itself (e.g. `@v.k = @v`) cannot be written to vars.json"""
    return "<cycle>" in json.dumps(canon_vars(variables))


def has_recursion_error(*outs):
    for o in outs:
        if o.get("raised") == "RecursionError" or any(e[1] == "RecursionError" for e in (o.get("errors") or [])):
            return True
    return False


def observable(out):
    """what C07 lists: variables, counters, validity, stop state, errors, printouts"""
    return {
        "variables": canon_vars(out.get("variables")),
        "flags": out.get("flags"),
        "scan_count": out.get("scan_count"),
        "errors": out.get("errors"),
        "printouts": out.get("printouts"),
        "raised": out.get("raised"),
    }


def scan_of(csvpath):
    a = csvpath.index("[")
    b = csvpath.index("]", a)
    return csvpath[a + 1 : b]


def model_run(scan, recs, method, out, cfg=None, n=None):
    req = {"op": "run", "scan": scan, "recs": recs, "method": method, "script": [e for e in out["script"] if "raised" not in e],
           "cfg": cfg or {}}
    if n is not None:
        req["n"] = n
    return driver.ask(req)


def compare_with_model(tag, scan, recs, method, out, cfg=None, n=None, keep_unmatched=False):
    """returns a list of disagreements between one real run and the model run under its script"""
    dis = []
    if out.get("raised") or out.get("parse_error"):
        return dis  # exceptions end the run inside the matcher: covered by the error suites
    m = model_run(scan, recs, "collect" if method == "collectN" and n is None else method, out, cfg, n)
    if "error" in m:
        return [{"what": f"{tag}: model error", "model": m}]
    want_lines = out["lines"] if method != "ff" else None
    # `limit_collection`: a returned line is narrowed to the indexes the collect() function set while matching it.  The run-loop
    # model returns whole records; the projection is applied here from the recorded post-call state of the matcher.
    limits = {c["idx"]: e.get("limit") or [] for c, e in zip(out.get("calls") or [], out.get("script") or [])}
    if any(limits.values()) and "yielded" in m:
        try:
            m = dict(m)
            m["lines"] = [[rec[k] for k in limits.get(j, [])] if limits.get(j) else rec for rec, j in zip(m["lines"], m["yielded"])]
        except (IndexError, TypeError):
            return [{"what": f"{tag}: a line shorter than a collected index was returned without an exception", "model": m["lines"]}]
    if want_lines is not None and m["lines"] != want_lines:
        dis.append({"what": f"{tag}: lines", "real": want_lines, "model": m["lines"]})
    for key in ("flags", "scan_count", "calls"):
        if m[key] != out[key]:
            dis.append({"what": f"{tag}: {key}", "real": out[key], "model": m[key]})
    if m["script_left"] or m["underflow"]:
        dis.append({"what": f"{tag}: number of matcher calls", "left": m["script_left"], "underflow": m["underflow"]})
    real_unm = out.get("unmatched") or []
    if m["unmatched"] != real_unm:
        dis.append({"what": f"{tag}: unmatched", "real": real_unm, "model": m["unmatched"]})
    return dis


# ---------------------------------------------------------------------------------------------
# C07: collect / next / fast_forward / collect(nexts=n)
# ---------------------------------------------------------------------------------------------
def gen_case_methods(seed, i):
    r = rng(seed, "methods", i)
    recs = G.gen_file(r)
    prof = r.choice(["control", "control", "plain", "vars", "errors"])
    mp = G.match_part(r, prof)
    sp = G.scan_part(r, len(recs))
    policy = r.choice([["collect", "print"], ["collect"], ["collect", "stop"], ["collect", "fail"], ["print", "fail", "stop"]])
    if r.random() < 0.25:
        # the collect() function: the returned lines are narrowed, for every entry point alike
        mp += " " + r.choice(["collect(0)", "collect(1, 0)", 'collect("a", "b")', 'collect("n")', "collect(2)", '#b -> collect("a")'])
    case = {"recs": recs, "scan": sp, "match": mp, "policy": policy, "profile": prof}
    k = r.random()
    if k < 0.2 and "collect(" not in mp:
        # the same run whichever lines are handed back or kept aside (not together with the collect() function: narrowing an
        # unmatched line that is blank or short raises under collect() only — a combination of a mode and a function that
        # neither C07's nor C15's quantifier reaches)
        case["modes"] = r.choice(["unmatched-mode: keep", "return-mode: no-matches", "unmatched-mode: keep return-mode: no-matches"])
    return case


def case_methods(case):
    import real_run

    recs = case["recs"]
    path = real_run.write_file("m.csv", recs)
    modes = case.get("modes") or ""
    text = (f"~ {modes} ~ " if modes else "") + f"${path}[{case['scan']}][{case['match']}]"
    cfg = {"cwnm": "no-matches" in modes, "will_run": True, "unmatched_avail": "keep" in modes} if modes else None
    res = {"case": case, "disagree": [], "oracle": [], "nontrivial": False}
    runs = {}
    for meth in ("collect", "next", "ff"):
        out, _ = real_run.run_single(text, meth, policy=case["policy"])
        if "parse_error" in out:
            res["parse_error"] = out["parse_error"]
            return res
        runs[meth] = out
        res["disagree"] += compare_with_model(meth, case["scan"], recs, meth, out, cfg=cfg)
    c, nx, ff = runs["collect"], runs["next"], runs["ff"]
    if has_recursion_error(c, nx, ff):
        # a look-ahead that recurses until Python's stack is exhausted: the outcome depends on the
        # interpreter's stack depth at the call, outside every model (counted, not judged)
        res["unmodelled"] = "RecursionError"
        res["disagree"] = []
        return res
    # oracle: the three are the same run
    if "collect(" in case["match"]:
        # (lines narrowed by the collect() function are built anew for the caller: the lists next() hands out must still hold their
        #  lines when the run is over)
        kept, _ = real_run.run_single(text, "nextkeep", policy=case["policy"])
        if kept.get("lines") != nx.get("lines") and not kept.get("raised") and not nx.get("raised"):
            res["oracle"].append({"what": "the lines next() yielded do not hold their cells any more once the run is over",
                                  "kept": kept.get("lines"), "copied_at_once": nx.get("lines")})
    if c.get("lines") != nx.get("lines"):
        res["oracle"].append({"what": "collect() and next() return different lines", "collect": c.get("lines"), "next": nx.get("lines")})
    oc, on, of = observable(c), observable(nx), observable(ff)
    for name, o in (("next", on), ("fast_forward", of)):
        for k in oc:
            if oc[k] != o[k]:
                res["oracle"].append({"what": f"collect() and {name}() leave different {k}", "collect": oc[k], name: o[k]})
    nlines = len(c.get("lines") or [])
    res["nlines"] = nlines
    res["stopped_early"] = bool(c.get("flags", {}).get("stopped"))
    res["nontrivial"] = 0 < nlines and (nlines < sum(1 for x in recs if x))
    if c.get("raised"):
        res["raised"] = c["raised"]
        return res
    # collect(nexts=n) for n = 1 .. matches+1
    for n in range(1, nlines + 2):
        out, p = real_run.run_single(text, "collectN", n, policy=case["policy"])
        res["disagree"] += compare_with_model(f"collect(nexts={n})", case["scan"], recs, "collectN", out, cfg=cfg, n=n)
        if out.get("lines") != c["lines"][:n]:
            res["oracle"].append({"what": f"collect(nexts={n}) is not the first {n} lines of collect()",
                                  "got": out.get("lines"), "want": c["lines"][:n]})
        # no side effect of a later line: compare with next() iterated by hand up to the n-th yield
        if n <= nlines:
            ref, rp = real_run.make_path(text, policy=case["policy"])
            ref.parse(text)
            ref.collecting = True
            it = ref.next()
            for _ in range(n):
                next(it)
            want = {"variables": canon_vars(ref.variables), "flags": real_run.snapshot_flags(ref),
                    "scan_count": ref.scan_count, "printouts": rp.entries,
                    "errors": [[e.line_count, e.error.__class__.__name__] for e in (ref.errors or [])]}
            got = {k: observable(out)[k] for k in want}
            if got != want:
                res["oracle"].append({"what": f"collect(nexts={n}) performed a side effect of a later line (or lost one)",
                                      "got": got, "want": want})
            it.close()
    return res


# ---------------------------------------------------------------------------------------------
# C15: comment modes and metadata
# ---------------------------------------------------------------------------------------------
FREE_WORDS = ["checks", "the", "orders", "file", "v2", "Ünïcode", "٣", "draft!", "(wip)", "a.b", "x,y", "50%", "né", "_x", "-"]
# (values that contain field names as words or inside words — "validates" holds "id", "renamed" holds "name" — and fields named like
#  mode values: the scanner must cut a value where the *next* field's name starts, not where those letters first occur)
VAL_WORDS = ["alpha", "beta", "v1", "2024-01-01", "Ünï", "x_y", "two words", "a.b,c", "(q)", "50%", "٣",
             "validates ids", "renamed", "the author said", "a description", "id", "keep it", "rerun"]
KEYS = ["id", "name", "description", "author", "my-key", "my_key2", "Kéy", "test-case", "keep", "matches", "run", "default"]


def enc(s):
    return [[ord(c), c.isalnum(), c.isspace()] for c in s]


def gen_case_modes(seed, i):
    r = rng(seed, "modes", i)
    recs = G.gen_file(r, min_recs=1)
    prof = r.choice(["control", "plain", "vars", "plain"])
    mp = G.match_part(r, prof, max_components=4)
    if r.random() < 0.5:
        mp += ' print("p $.csvpath.line_number")'
    sp = G.scan_part(r, len(recs))
    modes = {
        "return-mode": r.choice([None, "matches", "no-matches", "no-matches"]),
        "unmatched-mode": r.choice([None, "keep", "no-keep", "keep"]),
        "run-mode": r.choice([None, "run", "run", "no-run"]),
        "print-mode": r.choice([None, "default", "no-default"]),
        "logic-mode": r.choice([None, "AND", "OR"]),
    }
    fields = []
    for _ in range(r.randint(0, 3)):
        k = r.choice(KEYS)
        if k in [f[0] for f in fields]:
            continue
        v = " ".join(r.choice(VAL_WORDS) for _ in range(r.randint(1, 3)))
        fields.append([k, v])
    free = " ".join(r.choice(FREE_WORDS) for _ in range(r.randint(0, 4)))
    items = [[k, v] for k, v in modes.items() if v is not None] + fields
    r.shuffle(items)
    sep = r.choice([" ", "\n", "  ", " \n "])
    via_group = r.random() < 0.3
    comment = free + ("" if not free else sep) + sep.join(f"{k}:{r.choice(['', ' ', '  '])}{v}" for k, v in items)
    return {"recs": recs, "scan": sp, "match": mp, "modes": modes, "fields": fields, "comment": comment,
            "free": free, "profile": prof, "after": r.choice(["", " ", "\n"]), "via_group": via_group}


def subseq(small, big):
    it = iter(big)
    return all(any(x == y for y in it) for x in small)


def case_modes(case):
    import real_run

    recs = case["recs"]
    path = real_run.write_file("md.csv", recs)
    body = f"${path}[{case['scan']}][{case['match']}]"
    modes = case["modes"]
    res = {"case": case, "disagree": [], "oracle": [], "nontrivial": False}

    def text_with(overrides):
        c = case["comment"]
        for k, v in overrides.items():
            cur = modes.get(k)
            if cur is not None:
                import re

                c = re.sub(re.escape(k) + r":\s*" + re.escape(cur), "", c)
            if v is not None:
                c = c + f" {k}: {v}"
        return f"~{c}~{case['after']}{body}"

    text = f"~{case['comment']}~{case['after']}{body}"
    cfg = {"cwnm": modes["return-mode"] == "no-matches", "will_run": modes["run-mode"] != "no-run",
           "unmatched_avail": modes["unmatched-mode"] == "keep"}
    out, p = real_run.run_single(text, "collect", policy=["collect", "print"])
    if "parse_error" in out:
        res["parse_error"] = out["parse_error"]
        # a comment of the claimed class must never break parsing
        bare, _ = real_run.run_single(body, "collect", policy=["collect", "print"])
        if "parse_error" not in bare:
            res["oracle"].append({"what": "adding an outer comment made the csvpath unparsable", "error": out["parse_error"]})
        return res
    # --- metadata clause: fields available, scan/match unchanged ---
    md = out["metadata"] or {}
    for k, v in case["fields"] + [[k, v] for k, v in modes.items() if v is not None]:
        if md.get(k) != v:
            res["oracle"].append({"what": f"metadata field {k!r} not available with its value", "want": v, "got": md.get(k)})
    if p.scan != f"${path}[{case['scan']}]" or p.match != f"[{case['match']}]":
        res["oracle"].append({"what": "outer comment changed the scan or match part", "scan": p.scan, "match": p.match})
    m = driver.ask({"op": "meta", "chars": enc(text.strip())})
    real_fields = [[k, v] for k, v in md.items() if k != "original_comment"]
    # the modes add their defaults to metadata after parsing; compare the fields the comment defines
    model_fields = m["fields"]
    rf = [f for f in real_fields if f[0] in [x[0] for x in model_fields]]
    if m["csvpath"] != body or sorted(map(json.dumps, rf)) != sorted(map(json.dumps, model_fields)):
        res["disagree"].append({"what": "meta: model and MetadataParser differ", "real": [body, rf], "model": m})
    # --- run under the written modes vs the model ---
    res["disagree"] += compare_with_model("modes", case["scan"], recs, "collect", out, cfg=cfg)
    if out.get("raised"):
        res["raised"] = out["raised"]
        return res
    lines = out["lines"]
    # --- run-mode ---
    if modes["run-mode"] == "no-run":
        if lines or out["script"] or out["printouts"] or out["scan_count"] or (out["unmatched"] or []):
            res["oracle"].append({"what": "run-mode: no-run read or returned something", "lines": lines, "calls": len(out["script"])})
        return res
    # --- print-mode ---
    if modes["print-mode"] == "no-default":
        if out["stdout"]:
            res["oracle"].append({"what": "print-mode: no-default still printed to standard out", "stdout": out["stdout"][:3]})
    else:
        if [e[1] for e in out["stdout"]] != [e[1] for e in out["printouts"]]:
            res["oracle"].append({"what": "default print-mode: standard out and the other printers differ",
                                  "stdout": out["stdout"][:3], "printer": out["printouts"][:3]})
    other, _ = real_run.run_single(text_with({"print-mode": "default" if modes["print-mode"] == "no-default" else "no-default"}),
                                   "collect", policy=["collect", "print"])
    if other.get("printouts") != out["printouts"] or other.get("lines") != lines:
        res["oracle"].append({"what": "print-mode changed something other than standard-out printing",
                              "a": out["printouts"][:3], "b": (other.get("printouts") or [])[:3]})
    # --- return-mode: complement within the scanned lines ---
    flip = "matches" if cfg["cwnm"] else "no-matches"
    comp, _ = real_run.run_single(text_with({"return-mode": flip}), "collect", policy=["collect", "print"])
    if "raised" not in comp and "parse_error" not in comp:
        offered = [c["idx"] for c in out["calls"] if not c["blank_last"]]
        # advanced-over lines are scanned too: take them from the model's view of this run
        mr = model_run(case["scan"], recs, "collect", out, cfg)
        offered = mr.get("offered", offered)
        a = lines
        b = comp["lines"]
        d, nm = (b, a) if cfg["cwnm"] else (a, b)
        scanned = [recs[i] for i in offered]
        # d and nm partition `scanned`, order preserved
        ok = len(d) + len(nm) == len(scanned) and subseq(d, scanned) and subseq(nm, scanned) and \
            sorted(map(json.dumps, d + nm)) == sorted(map(json.dumps, scanned))
        if not ok:
            res["oracle"].append({"what": "return-mode no-matches is not the complement of the default within the scanned lines",
                                  "default": d, "no_matches": nm, "scanned": scanned})
        if [e for e in comp["script"]] != [e for e in out["script"]]:
            res["oracle"].append({"what": "return-mode changed what the match part did", "a": out["script"][:4], "b": comp["script"][:4]})
        res["nontrivial"] = bool(d) and bool(nm)
    # --- unmatched-mode keep: partition of the records read ---
    if cfg["unmatched_avail"]:
        unm = out["unmatched"] or []
        seen = len(lines) + len(unm)
        read = recs[:seen]
        ok = seen <= len(recs) and subseq(lines, read) and subseq(unm, read) and \
            sorted(map(json.dumps, lines + unm)) == sorted(map(json.dumps, read))
        stopped = out["flags"]["stopped"]
        if not stopped and seen != len(recs):
            ok = False
        if not ok:
            res["oracle"].append({"what": "with unmatched-mode keep, collected and unmatched lines do not partition the records read",
                                  "lines": lines, "unmatched": unm, "records": recs})
    else:
        if out["unmatched"]:
            res["oracle"].append({"what": "unmatched lines kept without unmatched-mode: keep", "unmatched": out["unmatched"][:3]})
    # --- the written modes take effect whoever creates and drives the CsvPath: the same csvpath as the only member of a
    #     named-paths group, run path-major and line-major (where CsvPaths presets the return mode before the comment is read)
    if case.get("via_group") and not has_cycle(out.get("variables")) and not out.get("errors"):
        import real_group as RG
        import realenv

        for method in ("collect_paths", "collect_by_line"):
            realenv.reset_dirs()
            cp = RG.new_csvpaths(policy=["collect", "print"], csvpath_policy=["collect", "print"])
            RG.setup_group(cp, "g", [f"~{case['comment']}~{case['after']}$[{case['scan']}][{case['match']}]"], "food", recs)
            caller, mobs, raised = RG.run_group(cp, "g", "food", method)
            if raised or len(mobs) != 1:
                res["oracle"].append({"what": f"modes: the csvpath runs alone but {method} raised {raised}"})
            elif mobs[0]["lines"] != lines:
                res["oracle"].append({"what": f"modes: lines differ between a standalone run and {method} (a mode setting did not take effect)",
                                      "alone": lines, "group": mobs[0]["lines"], "modes": modes})
    return res
