"""Suite `group` (C08): members alone vs serial vs breadth-first."""
import itertools

import driver
import gen_paths as G
from core import rng
from run_suite import canon_vars, has_cycle, has_recursion_error


def gen_member(r):
    prof = r.choice(["plain", "control", "vars", "plain"])
    mp = G.match_part(r, prof, max_components=4)
    # C08 excludes the cross-path signals, references and line-rewriting functions: the generator
    # has none of them
    ident = r.choice([None, None, "m" + str(r.randint(1, 99))])
    # a member's own mode settings must hold in every kind of run
    nomatch = r.random() < 0.2
    if r.random() < 0.25:
        # what a member knows about the whole file must not depend on who created it
        mp += " " + r.choice(['@tl = total_lines()', 'push("tl", total_lines())', 'push("cl", count_lines())', '@pc = percent("line")'])
    return {"match": mp, "ident": ident, "nomatch": nomatch}


def gen_case(seed, i):
    r = rng(seed, "group", i)
    recs = G.gen_file(r, min_recs=1)
    if r.random() < 0.4:
        # repeated records: two physical lines with the same cells are still two lines
        full = [x for x in recs if x]
        if full:
            recs.insert(r.randint(0, len(recs)), list(r.choice(full)))
    n = r.randint(1, 4)
    members = []
    ids = set()
    for _ in range(n):
        m = gen_member(r)
        if m["ident"] in ids:
            m["ident"] = None
        if m["ident"]:
            ids.add(m["ident"])
        m["scan"] = G.scan_part(r, len(recs))
        if r.random() < 0.2:
            # the member's own printing setting: standard out goes, what the csvpath prints stays
            m["noprint"] = True
            if "print(" not in m["match"]:
                m["match"] += ' print("at $.csvpath.line_number")'
        members.append(m)
    case = {"recs": recs, "members": members, "if_all_agree": r.random() < 0.4, "perm": r.random() < 0.5}
    if i % 6 == 5:
        # the file, the lone CsvPath and the CsvPaths in another dialect
        case["delim"] = r.choice([";", "|", "\t"])
        case["quote"] = r.choice(["'", '"'])
    return case


def member_text(m, path=""):
    parts = []
    if m["ident"]:
        parts.append(f"id: {m['ident']}")
    if m.get("nomatch"):
        parts.append("return-mode: no-matches")
    if m.get("noprint"):
        parts.append("print-mode: no-default")
    c = ("~ " + " ".join(parts) + " ~ ") if parts else ""
    return f"{c}${path}[{m['scan']}][{m['match']}]"


def obs_of_single(out):
    return {"lines": out.get("lines"), "variables": canon_vars(out.get("variables")), "printouts": [e[1] for e in out.get("printouts") or []],
            "valid": out["flags"]["valid"], "match_count": out["flags"]["match_count"], "scan_count": out["scan_count"],
            "stopped": out["flags"]["stopped"]}


def obs_of_member(mo, with_lines=True):
    o = {"variables": canon_vars(mo["variables"]), "printouts": mo["printouts"], "valid": mo["valid"],
         "match_count": mo["match_count"], "scan_count": mo["scan_count"], "stopped": mo["stopped"]}
    if with_lines:
        o["lines"] = mo["lines"]
    return o


def case_group(case):
    import real_group as RG
    import real_run
    import realenv

    recs = case["recs"]
    members = case["members"]
    res = {"case": case, "disagree": [], "oracle": [], "nontrivial": False}
    orders = [list(range(len(members)))]
    if case["perm"] and len(members) > 1:
        orders.append(list(reversed(range(len(members)))))
    # ---- every member alone ----
    delim, quote = case.get("delim", ","), case.get("quote", '"')
    path = real_run.write_file("grp_alone.csv", recs, delimiter=delim, quotechar=quote)
    alone = []
    for m in members:
        # error messages carry the csvpath's identity ("[1] Line 0: ..."), which legitimately differs
        # between a lone CsvPath and a group member: errors are compared as records, not as printouts
        out, _ = real_run.run_single(member_text(m, path), "collect", policy=["collect"], delimiter=delim, quotechar=quote)
        if "parse_error" in out:
            res["parse_error"] = out["parse_error"]
            return res
        if out.get("raised") or has_recursion_error(out):
            res["unmodelled"] = out.get("raised") or "RecursionError"
            return res
        if has_cycle(out.get("variables")):
            res["unmodelled"] = "self-containing variable (not JSON-representable, cannot be archived)"
            return res
        alone.append(out)
    for order in orders:
        ms = [members[k] for k in order]
        for method in RG.METHODS:
            realenv.reset_dirs()
            cp = RG.new_csvpaths(policy=["collect"], csvpath_policy=["collect"], delimiter=delim, quotechar=quote)
            RG.setup_group(cp, "grp", [member_text(m) for m in ms], "food", recs, delimiter=delim, quotechar=quote)
            caller, mobs, raised = RG.run_group(cp, "grp", "food", method, if_all_agree=case["if_all_agree"])
            if raised:
                res["oracle"].append({"what": f"{method} raised {raised} although every member runs alone", "order": order})
                return res
            if len(mobs) != len(ms):
                res["oracle"].append({"what": f"{method}: number of member results", "got": len(mobs), "want": len(ms)})
                return res
            collects = method in ("collect_paths", "next_paths", "collect_by_line", "next_by_line")
            for pos, k in enumerate(order):
                a = obs_of_single(alone[k])
                g = obs_of_member(mobs[pos], with_lines=collects)
                if not collects:
                    a = dict(a)
                    a.pop("lines")
                by_line = method.endswith("by_line")
                for key in a:
                    if a[key] != g[key]:
                        res["oracle"].append({"what": f"member differs between alone and {method}: {key}", "member": k,
                                              "order": order, "alone": a[key], "group": g[key], "csvpath": member_text(ms[pos])})
            # caller lines of a breadth-first run
            if method in ("collect_by_line", "next_by_line"):
                # independent statement: record i is yielded iff any (all, with if_all_agree) of the
                # members that are still running return it.  Each member's own decisions and stop point
                # come from its run alone (positions yielded / records read, via the run-loop model
                # under the member's recorded matcher, which is compared with the real run below)
                from run_suite import compare_with_model, model_run

                solo = []
                for k in order:
                    mcfg = {"cwnm": bool(members[k].get("nomatch"))}
                    res["disagree"] += compare_with_model(f"member {k} alone", members[k]["scan"], recs, "collect", alone[k], cfg=mcfg)
                    mr = model_run(members[k]["scan"], recs, "collect", alone[k], cfg=mcfg)
                    solo.append((set(mr.get("yielded", [])), mr.get("seen", 0)))
                want = []
                for i, rec in enumerate(recs):
                    running = [(i in y) for (y, seen) in solo if i < seen]
                    if not running:
                        break
                    keep = all(running) if case["if_all_agree"] else any(running)
                    if keep:
                        want.append(rec)
                res.setdefault("caller_checked", 0)
                res["caller_checked"] += 1
                # the stop point of the group run: after the record on which the last member stopped
                # (compare through the model, which implements exactly that loop)
                mreq = {"op": "byline", "recs": recs, "if_all_agree": case["if_all_agree"],
                        "members": [{"scan": ms[pos]["scan"], "cwnm": bool(ms[pos].get("nomatch")), "script": cp._verif_members[pos]["script"]}
                                    for pos in range(len(ms))]}
                mm = driver.ask(mreq)
                if "error" not in mm:
                    if mm["caller"] != caller:
                        res["disagree"].append({"what": f"{method}: caller lines", "real": caller, "model": mm["caller"]})
                    for pos in range(len(ms)):
                        if mm["members"][pos]["lines"] != mobs[pos]["lines"]:
                            res["disagree"].append({"what": f"{method}: member lines", "pos": pos})
                        if mm["members"][pos]["script_left"] or mm["members"][pos]["underflow"]:
                            res["disagree"].append({"what": f"{method}: number of matcher calls of a member", "pos": pos})
                        fl = mm["members"][pos]["flags"]
                        if fl["stopped"] != mobs[pos]["stopped"] or fl["valid"] != mobs[pos]["valid"] or fl["match_count"] != mobs[pos]["match_count"]:
                            res["disagree"].append({"what": f"{method}: member flags", "pos": pos, "real": mobs[pos], "model": fl})
                if caller != want:
                    res["oracle"].append({"what": f"{method}: caller lines are not the {'intersection' if case['if_all_agree'] else 'union'} "
                                                  "of the members' decisions", "got": caller, "want": want, "order": order})
            if res["oracle"] or res["disagree"]:
                return res
    res["nontrivial"] = len(members) >= 2 and any(a["lines"] for a in alone) and len(set(str(a["lines"]) for a in alone)) > 1
    return res
