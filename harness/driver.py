"""Client for the Lean model driver (line protocol, one JSON object per line)."""
import json
import os
import subprocess

VERIF = os.path.dirname(os.path.dirname(os.path.abspath(__file__)))
DRIVER = os.path.join(VERIF, "lean", ".lake", "build", "bin", "driver")


class Driver:
    def __init__(self):
        if not os.path.exists(DRIVER):
            raise RuntimeError(f"model driver not built: {DRIVER}")
        self.p = subprocess.Popen(
            [DRIVER], stdin=subprocess.PIPE, stdout=subprocess.PIPE, text=True, bufsize=1, encoding="utf-8"
        )

    def ask(self, obj):
        self.p.stdin.write(json.dumps(obj, ensure_ascii=False) + "\n")
        self.p.stdin.flush()
        line = self.p.stdout.readline()
        if not line:
            raise RuntimeError("model driver died")
        return json.loads(line)

    def close(self):
        try:
            self.p.stdin.close()
            self.p.wait(timeout=5)
        except Exception:
            self.p.kill()


_D = None


def ask(obj):
    global _D
    if _D is None:
        _D = Driver()
    return _D.ask(obj)
