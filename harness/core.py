"""Shared machinery of the per-property checks: seeded PRNG derivation, a worker pool in which
each worker has its own private work directory and its own model driver, verdicts, replays,
known findings and evidence files."""
import hashlib
import json
import multiprocessing as mp
import os
import random
import shutil
import sys
import tempfile
import time
import traceback

VERIF = os.path.dirname(os.path.dirname(os.path.abspath(__file__)))
REPLAYS = os.path.join(VERIF, "replays")
EVIDENCE = os.path.join(VERIF, "evidence")
NPROC = int(os.environ.get("VERIF_NPROC", str(min(16, os.cpu_count() or 4))))


def derive(seed, *parts):
    h = hashlib.sha256(("|".join([str(seed)] + [str(p) for p in parts])).encode()).digest()
    return int.from_bytes(h[:8], "big")


def rng(seed, *parts):
    return random.Random(derive(seed, *parts))


# ---------------------------------------------------------------------------------------------
# worker pool
# ---------------------------------------------------------------------------------------------
_WORKER_FN = {}


def _init_worker(base, modname):
    os.environ["VERIF_WORKBASE"] = base
    sys.path.insert(0, os.path.join(VERIF, "harness"))
    sys.path.insert(0, os.path.join(VERIF, "harness", "suites"))
    import importlib
    import driver as _drv

    _drv._D = None  # never share the parent's driver pipe

    # silence the real code's prints to stdout/stderr inside workers
    devnull = open(os.devnull, "w")
    os.dup2(devnull.fileno(), 1)
    os.dup2(devnull.fileno(), 2)
    mod = importlib.import_module(modname)
    _WORKER_FN["mod"] = mod


def _run_chunk(args):
    fname, chunk = args
    mod = _WORKER_FN["mod"]
    fn = getattr(mod, fname)
    out = []
    for case in chunk:
        try:
            out.append(fn(case))
        except Exception as e:  # infrastructure error inside a worker
            out.append({"infra_error": f"{e.__class__.__name__}: {e}", "trace": traceback.format_exc(), "case": case})
    return out


def run_cases(modname, fname, cases, chunk=16, nproc=None):
    """run `modname.fname(case)` for every case in a pool of workers; order preserved"""
    nproc = nproc or NPROC
    if not cases:
        return []
    base = tempfile.mkdtemp(prefix="csvpath-verif-pool-")
    try:
        chunks = [(fname, cases[i : i + chunk]) for i in range(0, len(cases), chunk)]
        ctx = mp.get_context("fork")
        with ctx.Pool(min(nproc, len(chunks)), initializer=_init_worker, initargs=(base, modname)) as pool:
            res = pool.map(_run_chunk, chunks)
        return [r for ch in res for r in ch]
    finally:
        shutil.rmtree(base, ignore_errors=True)


# ---------------------------------------------------------------------------------------------
# known findings
# ---------------------------------------------------------------------------------------------
def load_known_findings():
    """known-findings.txt: lines `finding: property=Cxx id=<id> <text>` (open) and
    `fixed: property=Cxx <commit> <text>` (suppress nothing)."""
    path = os.path.join(VERIF, "known-findings.txt")
    found = {}
    if os.path.exists(path):
        for line in open(path, encoding="utf-8"):
            line = line.strip()
            if line.startswith("finding:"):
                kv = dict(tok.split("=", 1) for tok in line.split()[1:3] if "=" in tok)
                rest = line.split(None, 3)[3] if len(line.split(None, 3)) > 3 else ""
                found.setdefault(kv.get("property"), {})[kv.get("id")] = rest
    return found


# ---------------------------------------------------------------------------------------------
# verdict / evidence
# ---------------------------------------------------------------------------------------------
class Check:
    def __init__(self, prop, tier, seed):
        self.prop = prop
        self.tier = tier
        self.seed = seed
        self.t0 = time.time()
        self.violations = []  # (kind, case-dict)  new violations
        self.known_hits = {}  # finding id -> count
        self.broken = []  # (what no longer checks, detail) — proof / pin / correspondence
        self.evaluations = 0
        self.nontrivial = set()
        self.samples = []
        self.extra = {}
        self.obligations = []  # theorem names
        self.discharged = []
        self.axioms = {}
        self.assumptions = []
        self.trusted = []
        self.known = load_known_findings().get(prop, {})
        self.infra = []

    # -- bookkeeping ---------------------------------------------------------------------------
    def count(self, key, n=1):
        self.extra[key] = self.extra.get(key, 0) + n

    def sample(self, s, limit=6):
        if len(self.samples) < limit:
            self.samples.append(s)

    def nontriv(self, key):
        self.nontrivial.add(key if isinstance(key, str) else json.dumps(key, sort_keys=True, default=str))

    def violation(self, what, case, finding=None):
        """a real-code observation that contradicts the property"""
        if finding is not None and finding in self.known:
            self.known_hits[finding] = self.known_hits.get(finding, 0) + 1
            self.known_hits.setdefault("_example_" + finding, case)
            return
        self.violations.append((what, case))

    def break_(self, what, case):
        """model/implementation correspondence or a proof obligation no longer checks"""
        self.broken.append((what, case))

    # -- finish ----------------------------------------------------------------------------------
    def write_replay(self, name, obj):
        os.makedirs(REPLAYS, exist_ok=True)
        h = hashlib.sha256(json.dumps(obj, sort_keys=True, default=str).encode()).hexdigest()[:12]
        path = os.path.join(REPLAYS, f"{self.prop}-{name}-{h}.json")
        with open(path, "w", encoding="utf-8") as f:
            json.dump(obj, f, indent=1, default=str, ensure_ascii=False)
        return path

    def finish(self):
        wall = time.time() - self.t0
        lines = []
        for fid, n in self.known_hits.items():
            if fid.startswith("_example_"):
                continue
            lines.append(f"KNOWN-FINDING: property={self.prop} id={fid} {self.known.get(fid, '')} (seen {n}x this run)")
        code = 0
        vio_lines = []
        if self.infra:
            code = 2
        if self.violations:
            what, case = self.violations[0]
            path = self.write_replay(
                "violation",
                {"property": self.prop, "what": what, "case": case, "count": len(self.violations),
                 "others": [w for w, _ in self.violations[1:20]],
                 "replay_cmd": f"./verify {self.prop} --replay <this file>"},
            )
            vio_lines.append(f"VIOLATION property={self.prop} replay={path}")
            code = 1
        elif self.broken:
            what, case = self.broken[0]
            path = self.write_replay(
                "broken",
                {"property": self.prop, "no_longer_checks": what, "smallest_disagreeing_case": case,
                 "count": len(self.broken), "others": [w for w, _ in self.broken[1:20]],
                 "note": "the proof no longer covers the code; the search found no input on which the real code violates the property"},
            )
            vio_lines.append(f"VIOLATION property={self.prop} replay={path} no-failing-input-found")
            code = 1
        ev = {
            "property_id": self.prop,
            "tier": self.tier,
            "seed": int(self.seed),
            "level": "proof",
            "coverage": {
                "obligations": len(self.obligations),
                "discharged": len(self.discharged),
                "checker_cmd": "cd lean && lake build && lake env lean <generated #print axioms file> (see tools/audit.py)",
                "trusted_base": self.trusted,
                "theorems": self.obligations,
                "axioms": self.axioms,
                "evaluations": int(self.evaluations),
                "distinct_nontrivial": len(self.nontrivial),
                "samples": self.samples or ["(no cases run)"],
                **self.extra,
            },
            "assumptions": self.assumptions,
            "wall_s": round(wall, 2),
            "violations": len(self.violations) + (1 if (self.broken and not self.violations) else 0),
            "known_findings_seen": {k: v for k, v in self.known_hits.items() if not k.startswith("_example_")},
        }
        os.makedirs(EVIDENCE, exist_ok=True)
        with open(os.path.join(EVIDENCE, f"{self.prop}.json"), "w", encoding="utf-8") as f:
            json.dump(ev, f, indent=1, default=str, ensure_ascii=False)
        for l in lines:
            print(l)
        for inf in self.infra[:5]:
            print(f"INFRA-ERROR: {inf}", file=sys.stderr)
        for l in vio_lines:
            print(l)
        if code == 0:
            print(f"OK property={self.prop} tier={self.tier} seed={self.seed} evaluations={self.evaluations} "
                  f"nontrivial={len(self.nontrivial)} theorems={len(self.discharged)}/{len(self.obligations)} wall={wall:.1f}s")
        return code
