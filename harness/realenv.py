"""Isolation of the real csvpath code for the correspondence harness.

Every worker process calls ``enter()`` once, *before* importing csvpath:
  * a private temporary working directory (config/, archive/, inputs/, cache/, logs/),
  * a config.ini without [listeners] (the shipped one points OpenLineage at an unreachable host),
  * ply.yacc wrapped so that /repo/csvpath/scanning/parsetab.py is never rewritten,
  * csvpath imported from /repo's working tree (PYTHONPATH first).
Nothing the harness needs lives under /tmp after the process exits.
"""
import atexit
import os
import shutil
import sys
import tempfile

REPO = os.environ.get("CSVPATH_REPO", "/repo")

CONFIG_TMPL = """
[csvpath_files]
extensions = txt, csvpath, csvpaths
[csv_files]
extensions = txt, csv, tsv, dat, tab, psv, ssv
[errors]
csvpath = {csvpath_policy}
csvpaths = {csvpaths_policy}
[logging]
csvpath = error
csvpaths = error
log_file = logs/csvpath.log
log_files_to_keep = 2
log_file_size = 52428800
[config]
path =
[functions]
imports =
[cache]
path = cache
[results]
archive = archive
transfers = transfers
[inputs]
files = inputs/named_files
csvpaths = inputs/named_paths
on_unmatched_file_fingerprints = halt
"""

_WORKDIR = None


def write_config(csvpath_policy="raise, collect, stop, fail, print", csvpaths_policy="raise, collect"):
    os.makedirs("config", exist_ok=True)
    with open("config/config.ini", "w", encoding="utf-8") as f:
        f.write(CONFIG_TMPL.format(csvpath_policy=csvpath_policy, csvpaths_policy=csvpaths_policy))


def enter(csvpath_policy="raise, collect, stop, fail, print", csvpaths_policy="raise, collect"):
    """chdir into a fresh private work dir and make csvpath importable from REPO."""
    global _WORKDIR
    if _WORKDIR is not None:
        return _WORKDIR
    os.environ["PYTHONDONTWRITEBYTECODE"] = "1"
    sys.dont_write_bytecode = True
    os.environ["CSVPATH_VERIF"] = "1"
    os.environ.pop("CSVPATH_CONFIG_PATH", None)
    d = tempfile.mkdtemp(prefix="csvpath-verif-", dir=os.environ.get("VERIF_WORKBASE") or None)
    _WORKDIR = d
    os.chdir(d)
    write_config(csvpath_policy, csvpaths_policy)
    for sub in ("archive", "inputs/named_files", "inputs/named_paths", "cache", "logs", "transfers", "data"):
        os.makedirs(sub, exist_ok=True)
    atexit.register(cleanup)
    if REPO not in sys.path:
        sys.path.insert(0, REPO)
    # never let ply rewrite parsetab.py in the repository
    from ply import yacc as _yacc

    if not getattr(_yacc, "_verif_wrapped", False):
        _orig = _yacc.yacc

        def _wrapped(*a, **kw):
            kw["write_tables"] = False
            kw["debug"] = False
            return _orig(*a, **kw)

        _yacc.yacc = _wrapped
        _yacc._verif_wrapped = True
    import warnings

    warnings.filterwarnings("ignore")
    return d


def cleanup():
    global _WORKDIR
    if _WORKDIR and os.path.isdir(_WORKDIR):
        try:
            os.chdir("/")
        except OSError:
            pass
        shutil.rmtree(_WORKDIR, ignore_errors=True)
    _WORKDIR = None


def reset_dirs():
    """empty archive/inputs/cache between cases (same process, same work dir)."""
    if _WORKDIR is None or os.path.realpath(os.getcwd()) != os.path.realpath(_WORKDIR):
        raise RuntimeError("reset_dirs outside the private work dir")
    for sub in ("archive", "inputs/named_files", "inputs/named_paths", "cache", "transfers", "data"):
        shutil.rmtree(sub, ignore_errors=True)
        os.makedirs(sub, exist_ok=True)


def write_csv(path, records, delimiter=",", quotechar='"'):
    import csv

    with open(path, "w", encoding="utf-8", newline="") as f:
        w = csv.writer(f, delimiter=delimiter, quotechar=quotechar, lineterminator="\n")
        for r in records:
            w.writerow(r)
