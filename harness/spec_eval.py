"""Reference semantics S of the core csvpath constructs, executable (the oracle of C01, C03, C04,
C13).  Written from docs/ (functions/*.md, assignment.md, qualifiers.md, headers.md, variables.md)
and from the property statements — not from the implementation.  It interprets the component
tree read off the real parser (ast_extract), so the parser is not part of what is judged here.

Anything outside the documented core raises OutOfClass; such cases are used for model/code
correspondence only."""
from assign_suite import spec_assign  # the documented assignment table (C14)


class OutOfClass(Exception):
    pass


ASSIGN_QUALS = ["onmatch", "latch", "onchange", "increase", "decrease", "notnone", "asbool", "nocontrib"]
KNOWN = ASSIGN_QUALS + ["distinct", "once"]


def is_none(v):
    return v is None or (isinstance(v, str) and v.strip() in ("", "None", "nan"))


def as_number(v):
    """a number, or a string that spells one; else None"""
    if isinstance(v, bool) or v is None:
        return None
    if isinstance(v, (int, float)):
        return v
    if isinstance(v, str):
        try:
            return float(v)
        except ValueError:
            return None
    return None


def fmt(v):
    return f"{v}"


def asbool(v):
    if v is None or v is False:
        return False
    if v is True:
        return True
    if isinstance(v, str):
        t = v.strip().lower()
        if t == "false":
            return False
        if t == "true":
            return True
        if v.strip() in ("nan", "NaN"):
            return False
    return bool(v)


EFFECTFUL = {"every", "counter", "push", "push_distinct", "pop", "put", "stop", "fail_and_stop", "skip", "advance", "fail", "fail_all", "print",
             "stack", "tally", "sum", "subtotal", "first", "count"}


def is_onmatch_component(n):
    """a top-level component that carries the onmatch qualifier: an effectful function or an assignment"""
    if n["k"] == "fn":
        return "onmatch" in n["quals"]
    if n["k"] == "eq" and n["op"] == "=" and n["l"]["k"] == "var":
        return "onmatch" in n["l"]["quals"]
    return False


def strip_onmatch(n):
    import copy

    m = copy.deepcopy(n)
    if m["k"] == "fn":
        m["quals"] = [q for q in m["quals"] if q != "onmatch"]
    else:
        m["l"]["quals"] = [q for q in m["l"]["quals"] if q != "onmatch"]
    return m


def uses_state(n):
    """does the component read a variable or a stack (so that its meaning depends on when the onmatch component runs)?"""
    if n["k"] == "var":
        return True
    if n["k"] == "fn":
        return n["name"] in ("get", "peek", "pop", "stack", "failed", "valid", "count", "has_matches") or any(uses_state(a) for a in n["args"])
    if n["k"] == "eq":
        return uses_state(n["l"]) or uses_state(n["r"])
    return False


def has_effect(n):
    if n["k"] == "fn":
        if n["name"] in EFFECTFUL and not (n["name"] == "count" and not n["args"]):
            return True
        return any(has_effect(a) for a in n["args"])
    if n["k"] == "eq":
        return n["op"] != "==" or has_effect(n["l"]) or has_effect(n["r"])
    return False


class Spec:
    def __init__(self, prog, recs, den, scan_last, and_mode=True, headers=None):
        self.prog = prog
        self.recs = recs
        self.den = den  # index -> bool
        self.scan_last = scan_last  # greatest denoted index or None
        self.dm = and_mode
        self.vars = {}
        self.valid = True
        self.advance = 0
        self.match_count = 0
        self.scan_count = 0
        self.data_count = 0
        self.lines = []
        self.prints = []
        self.trigger = set()  # known-finding triggers met while evaluating
        first = next((r for r in recs if r), None)
        import re

        self.headers = headers if headers is not None else ([re.sub(r"[;,|\t`]", "", c.strip()) for c in first] if first else [])
        self.data_total = sum(1 for r in recs if r)
        # per-line
        self.line = None
        self.idx = None
        self.stop_fired = False
        self.skip_fired = False
        self.first_data_idx = next((i for i, r in enumerate(recs) if r), None)

    # ---- values -------------------------------------------------------------------------------
    def header_cell(self, n):
        if "index" in n:
            i = n["index"]
        else:
            if n["name"] not in self.headers:
                return None
            i = self.headers.index(n["name"])
        if i >= len(self.line):
            return None
        return self.line[i].strip()

    def value(self, n):
        k = n["k"]
        if k == "term":
            v = n["v"]
            if isinstance(v, dict):
                return float(v["f"])
            return v
        if k == "header":
            v = self.header_cell(n)
            if "asbool" in n["quals"]:
                return asbool(v)
            return v
        if k == "var":
            extra = [q for q in n["quals"] if q not in KNOWN]
            v = self.vars.get(n["name"])
            if extra:
                if not isinstance(v, dict):
                    return None
                got = v.get(extra[0])
                if got is None and extra[0] in ("True", "False"):
                    # the counts of count(x) for a condition x are kept under the truth values themselves
                    got = v.get(extra[0] == "True")
                return got
            return v
        if k == "eq":
            return self.vote(n)
        name, args, q = n["name"], n["args"], n["quals"]
        if "onmatch" in q or "onchange" in q or "once" in q:
            raise OutOfClass("look-ahead qualifier")
        if name == "concat":
            return "".join(fmt(self.value(a)) for a in args)
        if name in ("lower", "upper", "strip"):
            s = fmt(self.value(args[0]))
            return {"lower": s.lower(), "upper": s.upper(), "strip": s.strip()}[name]
        if name == "length":
            v = self.value(args[0])
            return len(fmt(v)) if v else 0
        if name == "add":
            tot = 0.0
            for a in args:
                v = self.value(a)
                x = 0 if is_none(v) else as_number(v)
                if x is None:
                    raise OutOfClass("add of a non-number")
                tot += x
            return float(tot)
        if name in ("subtract", "minus"):
            if len(args) == 1:
                if args[0]["k"] != "term":
                    raise OutOfClass("minus of a non-term")
                return -int(self.value(args[0]))
            vals = [as_number(self.value(a)) for a in args]
            if any(v is None for v in vals):
                raise OutOfClass("subtract of a non-number")
            r = vals[0]
            for v in vals[1:]:
                r = float(r) - float(v)
            return r
        if name == "multiply":
            raw = [self.value(a) for a in args]
            if any(v is None for v in raw):
                return 0
            vals = [as_number(v) for v in raw]
            if any(v is None for v in vals):
                raise OutOfClass("multiply of a non-number")
            r = vals[0] if len(vals) == 1 else 1.0
            if len(vals) > 1:
                for v in vals:
                    r = float(r) * float(v)
            else:
                r = raw[0]
            return r
        if name == "int":
            v = self.value(args[0])
            if v is None:
                return None
            x = 0 if is_none(v) else as_number(v)
            if x is None or x != int(x):
                raise OutOfClass("int of a non-integral value")
            return int(x)
        if name == "count" and not args:
            return self.match_count + 1
        if name == "count_lines":
            return self.data_count
        if name == "line_number":
            return self.idx
        if name == "count_scans":
            return self.scan_count
        if name == "total_lines":
            return self.data_total
        if name == "count_headers":
            return len(self.headers)
        if name == "count_headers_in_line":
            return len(self.line)
        if name == "peek":
            st = self.vars.get(self.value(args[0]))
            i = self.value(args[1])
            if not isinstance(st, list) or not isinstance(i, int) or i < 0:
                raise OutOfClass("peek")
            return st[i] if i < len(st) else None
        if name == "get":
            if len(args) != 1:
                raise OutOfClass("get with a key")
            return self.vars.get(self.value(args[0]))
        if name == "pop":
            key = self.value(args[0])
            st = self.vars.get(key)
            if st is None:
                self.vars[key] = []
                return None
            if not isinstance(st, list):
                raise OutOfClass("pop of a non-stack")
            return st.pop() if st else None
        if name == "first":
            # docs/functions/first.md: the line number of the first sighting of each value; None on that first sighting
            if not args or any(a["k"] != "header" for a in args):
                raise OutOfClass("first of a non-header")
            key = "".join(fmt(self.value(a)) for a in args).strip()
            nm = next((x for x in q if x not in KNOWN), "first")
            d = self.vars.setdefault(nm, {})
            if not isinstance(d, dict):
                raise OutOfClass("first on a non-dict variable")
            if d.get(key) is None:
                d[key] = self.idx
                return None
            return d[key]
        if name == "tally":
            # docs/functions/tally.md: counts of each value per argument, and of the combination
            base = next((x for x in q if x not in KNOWN), "tally")
            vals = []
            for a in args:
                if a["k"] == "header":
                    an = a["name"] if "name" in a else str(a["index"])
                elif a["k"] == "var":
                    an = a["name"]
                else:
                    raise OutOfClass("tally of a function or term")
                v = fmt(self.value(a))
                vals.append(v)
                if v.strip() != "":
                    d = self.vars.setdefault(f"{base}_{an}", {})
                    d[v] = (d.get(v) or 0) + 1
            if len(args) > 1:
                combo = "|".join(vals)
                if combo.strip() != "":
                    d = self.vars.setdefault(base, {})
                    d[combo] = (d.get(combo) or 0) + 1
            return True
        if name in ("sum", "subtotal"):
            nm = next((x for x in q if x not in KNOWN), name)
            x = self.value(args[-1])
            if is_none(x):
                num = 0 if name == "sum" else 0.0
            else:
                num = as_number(x) if not isinstance(x, bool) else None
                if num is None:
                    raise OutOfClass("sum of a non-number (an error, C05)")
                num = float(num)
            if name == "sum":
                if len(args) != 1:
                    raise OutOfClass("sum arity")
                cur = self.vars.get(nm, 0)
                if isinstance(cur, bool) or not isinstance(cur, (int, float)):
                    raise OutOfClass("sum on a non-number variable")
                self.vars[nm] = cur + num
                return self.vars[nm]
            if len(args) != 2:
                raise OutOfClass("subtotal arity")
            cat = self.value(args[0])
            if cat is None:
                raise OutOfClass("subtotal by None")
            d = self.vars.setdefault(nm, {})
            if not isinstance(d, dict):
                raise OutOfClass("subtotal on a non-dict variable")
            d[cat] = (d.get(cat) or 0) + num
            return d[cat]
        if name == "count" and len(args) == 1:
            # docs/functions/count.md: count(x) counts the lines seen per value of x (an equality gives True / False)
            extra = [x for x in q if x not in KNOWN]
            if not extra or args[0]["k"] not in ("eq", "fn"):
                raise OutOfClass("count(x) without a name")
            tracked = self.value(args[0])
            d = self.vars.setdefault(extra[0], {})
            if not isinstance(d, dict):
                raise OutOfClass("count(x) on a non-dict variable")
            d[tracked] = (d.get(tracked) or 0) + 1
            return d[tracked]
        if name == "counter":
            extra = [x for x in q if x not in KNOWN]
            if not extra:
                raise OutOfClass("counter without a name")
            inc = 1 if not args else self.value(args[0])
            if not isinstance(inc, int):
                raise OutOfClass("counter increment")
            self.vars[extra[0]] = self.vars.get(extra[0], 0) + inc
            return self.vars[extra[0]]
        # match deciders used as values
        return self.vote(n)

    # ---- votes --------------------------------------------------------------------------------
    def compare(self, name, a, b):
        """docs/functions/above.md: number, then (date), then string; None against anything is False"""
        if a is None or b is None:
            if a is None and b is None:
                raise OutOfClass("both operands None")
            return False
        x, y = as_number(a), as_number(b)
        if x is not None and y is not None:
            l, r = x, y
        else:
            l, r = fmt(a).strip(), fmt(b).strip()
        if name in ("gt", "above", "after"):
            return l > r
        if name == "gte":
            return l >= r
        if name in ("lt", "below", "before"):
            if l == r:
                self.trigger.add("lt-is-le")
            return l < r
        return l <= r  # lte

    def vote(self, n):
        """True/False, or None for a neutral vote"""
        k = n["k"]
        if k == "term":
            return None
        if k == "header":
            v = self.value(n)
            if "asbool" in n["quals"]:
                return bool(v)
            return not is_none(v)
        if k == "var":
            v = self.value(n)
            if "asbool" in n["quals"]:
                return asbool(v)
            return v is not None
        if k == "eq":
            if n["op"] == "==":
                a, b = self.value(n["l"]), self.value(n["r"])
                if fmt(a).strip() == fmt(b).strip():
                    return True
                x, y = as_number(a), as_number(b)
                if x is not None and y is not None and not isinstance(a, str) and not isinstance(b, str):
                    return x == y
                return False
            if n["op"] == "->":
                lv = self.vote(n["l"])
                holds = lv is True
                if holds:
                    self.vote(n["r"])
                if self._nocontrib(n["l"]):
                    return None
                return holds
            # assignment
            if n["l"]["k"] != "var":
                raise OutOfClass("assignment to a non-variable")
            q = n["l"]["quals"]
            r = n["r"]
            if "onmatch" in q or (r["k"] == "fn" and r["name"] in ("count", "has_matches") and not r["args"]):
                raise OutOfClass("assignment that looks ahead")
            y = self.value(r)
            name = n["l"]["name"]
            extra = [x for x in q if x not in KNOWN]
            aq = [x for x in q if x in ASSIGN_QUALS]
            cur_all = self.vars.get(name)
            if extra:
                if cur_all is not None and not isinstance(cur_all, dict):
                    raise OutOfClass("tracking assignment to a plain variable")
                cur = (cur_all or {}).get(extra[0])
            else:
                cur = cur_all
            if not aq:
                if isinstance(y, (list, dict)):
                    raise OutOfClass("storing a mutable container in a second variable (aliasing)")
                write, v = ("w", y), self.dm
            else:
                if isinstance(y, (list, dict)) or isinstance(cur, (list, dict)):
                    raise OutOfClass("qualified assignment of a container")
                if ("increase" in aq or "decrease" in aq) and not (y is None or bool(y)):
                    raise OutOfClass("falsy non-None value under increase/decrease (outside C14's quantifier)")
                if ("increase" in aq or "decrease" in aq) and cur is not None and y is not None and \
                        (isinstance(cur, str) != isinstance(y, str)):
                    raise OutOfClass("ordering of a number and a string")
                try:
                    write, v = spec_assign(aq, cur, y, True, self.dm)
                except TypeError:
                    raise OutOfClass("ordering of incomparable values")
            if write is not None:
                if extra:
                    d = self.vars.setdefault(name, {})
                    d[extra[0]] = y
                else:
                    self.vars[name] = y
            return v if aq else None
        name, args, q = n["name"], n["args"], n["quals"]
        if "onmatch" in q or "onchange" in q or "once" in q:
            raise OutOfClass("look-ahead qualifier")
        if len(args) == 1 and args[0]["k"] == "eq" and args[0]["op"] != "," and name != "count":
            raise OutOfClass("function of an equality")
        if name in ("yes", "true"):
            return True
        if name in ("no", "false"):
            return False
        if name == "not":
            v = self.vote(args[0])
            return not (v is True)
        if name in ("and", "or", "not", "in", "exists", "empty") and any(has_effect(a) for a in args):
            # whether a component with side effects nested in a boolean function runs when the
            # function could decide without it is not documented
            raise OutOfClass("side effect nested in a boolean function")
        if name == "and":
            res = True
            for a in args:
                if self.vote(a) is not True:
                    return False
            return res
        if name == "or":
            for a in args:
                if self.vote(a) is True:
                    return True
            return False
        if name == "exists":
            return not is_none(self.value(args[0]))
        if name == "empty":
            if len(args) != 1 or args[0]["k"] == "fn":
                raise OutOfClass("empty of several / of a function")
            return is_none(self.value(args[0]))
        if name == "in":
            t = self.value(args[0])
            items = []
            for a in args[1:]:
                v = self.value(a)
                if a["k"] == "term":
                    items += [p.strip() for p in fmt(v).strip().split("|")]
                elif isinstance(v, (list, tuple)):
                    items += list(v)
                else:
                    items.append(v)
            return t in items
        if name in ("gt", "above", "after", "gte", "lt", "below", "before", "lte"):
            return self.compare(name, self.value(args[0]), self.value(args[1]))
        if name in ("equals", "eq"):
            a, b = self.value(args[0]), self.value(args[1])
            if a is None and b is None:
                return True
            if bool(a) != bool(b):
                # equals() has no documentation; how it treats a falsy value (0, "") against a truthy one
                # is not specified
                raise OutOfClass("equals of a falsy and a truthy value")
            x, y = as_number(a), as_number(b)
            if x is not None and y is not None:
                return x == y
            if a is None or b is None:
                return False
            return fmt(a) == fmt(b)
        if name in ("between", "inside", "from_to", "range", "beyond", "outside"):
            me, a, b = (self.value(x) for x in args)
            if me is None or a is None or b is None:
                return False
            nums = [as_number(v) for v in (me, a, b)]
            if all(v is not None for v in nums):
                me, a, b = nums
            else:
                me, a, b = (fmt(v).strip() for v in (me, a, b))
            hi, lo = (a, b) if a > b else (b, a)
            if name in ("range", "from_to"):
                return lo <= me <= hi
            if name in ("between", "inside"):
                return lo < me < hi
            return me > hi or me < lo
        if name == "starts_with":
            return fmt(self.value(args[0])).strip().startswith(fmt(self.value(args[1])).strip())
        if name in ("min_length", "too_long", "max_length", "too_short"):
            v, nlen = self.value(args[0]), self.value(args[1])
            if not isinstance(v, str) or not isinstance(nlen, int):
                raise OutOfClass("min/max_length arguments")
            return len(v) >= nlen if name in ("min_length", "too_long") else len(v) <= nlen
        if name == "length":
            return self.value(n) > 0
        if name == "upper":
            self.value(n)
            return True
        if name in ("firstline", "firstscan", "last"):
            if name == "firstline":
                # docs/functions/last.md: "True only for the 0th row"; a blank 0th row is never offered
                m = self.idx == 0
            elif name == "firstscan":
                m = self.scan_count == 1
            else:
                m = self.idx == len(self.recs) - 1 or (self.scan_last is not None and self.idx == self.scan_last)
            if m and args:
                self.vote(args[0])
            return m
        if name == "failed":
            return not self.valid
        if name == "valid":
            return self.valid
        if name == "every":
            raise OutOfClass("every")
        # ---- side effects: neutral votes ----
        if name in ("push", "push_distinct"):
            key, v = self.value(args[0]), self.value(args[1])
            if isinstance(v, (list, dict)):
                raise OutOfClass("pushing a mutable container (aliasing)")
            st = self.vars.setdefault(key, [])
            if not isinstance(st, list):
                raise OutOfClass("push onto a non-stack")
            if ("distinct" in q or name == "push_distinct") and v in st:
                return None
            if "notnone" in q and is_none(v):
                return None
            st.append(v)
            return None
        if name == "pop":
            v = self.value(n)
            return asbool(v) if "asbool" in q else None
        if name in ("counter", "concat", "lower", "strip", "add", "subtract", "minus", "multiply", "int", "sum", "subtotal"):
            self.value(n)
            return None
        if name == "first":
            return self.value(n) is None
        if name == "tally":
            self.value(n)
            return True
        if name == "count" and not args:
            return None
        if name == "count" and len(args) == 1:
            self.value(n)
            return None
        if name == "put":
            if len(args) != 2:
                raise OutOfClass("put with a key")
            self.vars[self.value(args[0])] = self.value(args[1])
            raise OutOfClass("put as a component (its vote is not documented)")
        if name == "stack":
            raise OutOfClass("stack")
        if name in ("stop", "fail_and_stop"):
            fire = True if not args else (self.vote(args[0]) is True)
            if fire:
                self.stop_fired = True
                if name == "fail_and_stop":
                    self.valid = False
            return None
        if name == "skip":
            fire = True if not args else (self.vote(args[0]) is True)
            if fire:
                self.skip_fired = True
            return None
        if name == "advance":
            v = self.value(args[0])
            if not isinstance(v, int) or v < 0:
                raise OutOfClass("advance argument")
            self.advance = v
            return None
        if name in ("fail", "fail_all"):
            self.valid = False
            return None
        if name == "print":
            s = self.value(args[0])
            if len(args) != 1 or not isinstance(s, str):
                raise OutOfClass("print with a second argument")
            if "$" in s:
                # C16: the text verbatim, each reference replaced by the value current at this point of this line
                import print_suite as PS

                try:
                    chunks = PS.parse_template(s)
                    env = {"variables": self.vars, "headers": self.headers, "line": self.line, "metadata": {},
                           "fields": {"count_lines": self.idx + 1, "line_number": self.idx, "count_scans": self.scan_count}}
                    s = PS.spec_expected(chunks, env)
                except PS.OutOfClass as e:
                    raise OutOfClass(f"print: {e}")
            self.prints.append(s)
            return None
        raise OutOfClass(f"function {name}")

    def _nocontrib(self, n):
        if n["k"] == "eq":
            return self._nocontrib(n["l"])
        return "nocontrib" in n.get("quals", [])

    # ---- the run ------------------------------------------------------------------------------
    def _init_counters(self, n=None):
        """docs/functions/counter.md: a named counter starts at 0 (it exists from the moment the match
        part is first used, whether or not it has been incremented)"""
        if n is None:
            if getattr(self, "_inited", False):
                return
            self._inited = True
            for c in self.prog:
                self._init_counters(c)
            return
        if n["k"] == "fn":
            if n["name"] == "counter":
                extra = [x for x in n["quals"] if x not in KNOWN]
                if extra:
                    self.vars.setdefault(extra[0], 0)
            for a in n["args"]:
                self._init_counters(a)
        elif n["k"] == "eq":
            self._init_counters(n["l"])
            self._init_counters(n["r"])

    def run(self):
        n = len(self.recs)
        stopped = False
        for i, rec in enumerate(self.recs):
            self.idx, self.line = i, rec
            if rec:
                self.data_count += 1
            if not rec:
                if i == n - 1:
                    # a file that ends in a blank line: last() still fires, nothing is returned
                    for c in self.prog:
                        self._fire_lasts(c)
                continue
            if not self.den(i):
                continue
            self.scan_count += 1
            if self.advance == 0:
                self._init_counters()
            is_scan_last = self.scan_last is not None and i == self.scan_last
            if self.advance > 0:
                if getattr(self, "nomatch", False):
                    raise OutOfClass("return-mode no-matches with advance()")
                self.advance -= 1
                if is_scan_last or i == n - 1 and self.scan_last is None:
                    break
                continue
            self.stop_fired = self.skip_fired = False
            votes = []
            cut = False
            om = [j for j, c in enumerate(self.prog) if is_onmatch_component(c)]
            if om:
                # docs/qualifiers.md: an onmatch component takes effect only on lines where all the other components match.
                # The meaning is settled where there is one such component, AND mode, and the others neither have effects
                # nor read state the onmatch component could change.
                if len(om) != 1 or not self.dm:
                    raise OutOfClass("onmatch: several onmatch components or OR mode")
                others = [c for j, c in enumerate(self.prog) if j != om[0]]
                if any(has_effect(c) or uses_state(c) for c in others):
                    raise OutOfClass("onmatch beside components with effects or state")
                votes = [self.vote(c) for c in others]
                omc = self.prog[om[0]]
                if all(v is not False for v in votes):
                    votes.append(self.vote(strip_onmatch(omc)))
                elif omc["k"] == "eq" and has_effect(omc["r"]):
                    # `@x.onmatch = f(...)`: the qualifier is the assignment's; the function on the right has none of its own and keeps
                    # its books on every scanned line — only the write to x waits for a match
                    self.value(omc["r"])
                if self.stop_fired or self.skip_fired:
                    raise OutOfClass("onmatch on a control function")
            for j, c in enumerate(self.prog if not om else []):
                v = self.vote(c)
                votes.append(v)
                if (self.stop_fired or self.skip_fired) and j < len(self.prog) - 1:
                    cut = True
                    break
            if cut or self.skip_fired:
                holds = False
            elif self.dm:
                holds = all(v is not False for v in votes)
            else:
                holds = any(v is True for v in votes)
            if getattr(self, "nomatch", False) and self.skip_fired:
                raise OutOfClass("return-mode no-matches with skip()")
            if holds:
                self.match_count += 1
            if holds != getattr(self, "nomatch", False):
                self.lines.append(rec)
            if self.stop_fired or is_scan_last:
                stopped = True
                break
        return self

    def _fire_lasts(self, n):
        if n["k"] == "eq" and n["op"] == "->" and n["l"]["k"] == "fn" and n["l"]["name"] == "last":
            self.vote(n["r"])
        elif n["k"] == "fn" and n["name"] == "last":
            if n["args"]:
                self.vote(n["args"][0])
        elif n["k"] == "fn":
            for a in n["args"]:
                self._fire_lasts(a)
        elif n["k"] == "eq":
            self._fire_lasts(n["l"])
            self._fire_lasts(n["r"])


def scan_den(scan):
    """denotation of the scan parts the generators write: *, N*, a-b, a+b (…+c)"""
    t = scan.replace(" ", "")
    if t == "*":
        return (lambda i: True), None
    if t.endswith("*"):
        n = int(t[:-1])
        return (lambda i: i >= n), None
    if "+" in t:
        items = [int(x) for x in t.split("+")]
        return (lambda i: i in items), max(items)
    if "-" in t:
        a, b = (int(x) for x in t.split("-"))
        lo, hi = min(a, b), max(a, b)
        return (lambda i: lo <= i <= hi), hi
    n = int(t)
    return (lambda i: i == n), n


def judge(prog, recs, scan, and_mode, nomatch=False):
    """run S; returns the Spec object or raises OutOfClass. `nomatch`: return-mode: no-matches — the lines returned are the
    scanned lines on which the components do not hold; the counters count the same things as ever"""
    den, last = scan_den(scan)
    sp = Spec(prog, recs, den, last, and_mode)
    sp.nomatch = nomatch
    return sp.run()
