"""Adapters around real CsvPaths group runs."""
import json
import os

import real_run  # enters the private work dir, patches StdOutPrinter
import realenv
from csvpath import CsvPaths

METHODS = ["collect_paths", "fast_forward_paths", "next_paths", "collect_by_line", "fast_forward_by_line", "next_by_line"]


def new_csvpaths(policy=None, csvpath_policy=None, delimiter=",", quotechar='"'):
    """a CsvPaths whose member CsvPaths are instrumented (matcher script recorded) and use the
    given error policy"""
    cp = CsvPaths(delimiter=delimiter, quotechar=quotechar)
    if policy is not None:
        cp.config.csvpaths_errors_policy = policy
    cp._verif_members = []
    orig = cp.csvpath

    def mk():
        p = orig()
        if csvpath_policy is not None:
            p.config.csvpath_errors_policy = csvpath_policy
        script, calls = real_run.instrument(p)
        cp._verif_members.append({"path": p, "script": script, "calls": calls})
        return p

    cp.csvpath = mk
    return cp


def member_obs(result):
    p = result.csvpath
    lines = None
    try:
        lines = [l for l in result.lines.next()] if hasattr(result.lines, "next") else list(result.lines)
    except Exception as e:  # noqa: BLE001
        lines = f"raised {e.__class__.__name__}"
    return {
        "identity": result.identity_or_index,
        "lines": lines,
        "variables": p.variables,
        "printouts": list(result.printouts),
        # every named stream (print's second argument), in the order the streams were first used
        "printouts_all": [[str(k), list(v or [])] for k, v in (result.get_printouts() or {}).items()],
        "valid": bool(p.is_valid),
        "result_valid": bool(result.is_valid),
        "stopped": bool(p.stopped),
        "match_count": p.match_count,
        "scan_count": p.scan_count,
        "errors": [[e.line_count, e.error.__class__.__name__] for e in result.errors],
        "unmatched": result.unmatched,
        "instance_dir": result.instance_dir,
        "run_dir": result.run_dir,
        "line_number": p.line_monitor.physical_line_number if p.line_monitor else None,
    }


def run_group(cp, pathsname, filename, method, **kw):
    """runs one named-paths group run; returns (caller_lines, members, raised)"""
    caller = None
    raised = None
    try:
        if method == "collect_paths":
            cp.collect_paths(pathsname=pathsname, filename=filename)
        elif method == "fast_forward_paths":
            cp.fast_forward_paths(pathsname=pathsname, filename=filename)
        elif method == "next_paths" and kw.get("take") is not None:
            # the consumer walks away after `take` lines and keeps the generator alive (an abandoned run)
            gen = cp.next_paths(pathsname=pathsname, filename=filename, collect=kw.get("collect", True))
            caller = [l[:] for l, _ in zip(gen, range(kw["take"]))]
            cp.__dict__.setdefault("_verif_abandoned", []).append(gen)
        elif method == "next_by_line" and kw.get("take") is not None:
            gen = cp.next_by_line(pathsname=pathsname, filename=filename, collect=kw.get("collect", True),
                                  if_all_agree=kw.get("if_all_agree", False), collect_when_not_matched=kw.get("cwnm", False))
            caller = [l[:] for l, _ in zip(gen, range(kw["take"]))]
            cp.__dict__.setdefault("_verif_abandoned", []).append(gen)
        elif method == "next_paths":
            caller = [l[:] for l in cp.next_paths(pathsname=pathsname, filename=filename, collect=kw.get("collect", True))]
        elif method == "collect_by_line":
            caller = cp.collect_by_line(pathsname=pathsname, filename=filename, if_all_agree=kw.get("if_all_agree", False),
                                        collect_when_not_matched=kw.get("cwnm", False))
        elif method == "fast_forward_by_line":
            cp.fast_forward_by_line(pathsname=pathsname, filename=filename, if_all_agree=kw.get("if_all_agree", False),
                                    collect_when_not_matched=kw.get("cwnm", False))
        elif method == "next_by_line":
            caller = [l[:] for l in cp.next_by_line(pathsname=pathsname, filename=filename, collect=kw.get("collect", True),
                                                    if_all_agree=kw.get("if_all_agree", False),
                                                    collect_when_not_matched=kw.get("cwnm", False))]
        else:
            raise ValueError(method)
    except Exception as e:  # noqa: BLE001
        raised = e.__class__.__name__
    members = []
    try:
        for r in cp.results_manager.get_named_results(pathsname):
            members.append(member_obs(r))
    except Exception:  # noqa: BLE001
        pass
    return caller, members, raised


def setup_group(cp, pathsname, paths, filename, recs, delimiter=",", quotechar='"'):
    src = os.path.join("data", f"{filename}.csv")
    realenv.write_csv(src, recs, delimiter=delimiter, quotechar=quotechar)
    cp.file_manager.add_named_file(name=filename, path=src)
    cp.paths_manager.add_named_paths(name=pathsname, paths=paths)
    return src


def read_tree(root):
    """the archive (or any dir) as {relative path: bytes}"""
    out = {}
    for d, _, fs in os.walk(root):
        for fn in fs:
            p = os.path.join(d, fn)
            with open(p, "rb") as f:
                out[os.path.relpath(p, root)] = f.read()
    return out
